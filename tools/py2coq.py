"""Emitted program text -> Gallina term of type TV.Model.Py.program (fail-closed).

`translate(text)` returns (coq_term, names) where names[i-1] is the spelling of
identifier `i` (positive).  Any Python construct outside Model/Py.v raises
Unsupported, so a compiler change that starts emitting something else is seen.
"""
import ast

from vlib import cstr, clist


class Unsupported(Exception):
    pass


BINOPS = {ast.Add: "BAdd", ast.Sub: "BSub", ast.Mult: "BMul", ast.Div: "BDiv", ast.FloorDiv: "BFDiv",
          ast.Mod: "BMod", ast.BitAnd: "BAnd", ast.BitOr: "BOr", ast.LShift: "BShl"}
CMPOPS = {ast.Eq: "CEq", ast.NotEq: "CNe", ast.Lt: "CLt", ast.LtE: "CLe", ast.Gt: "CGt", ast.GtE: "CGe",
          ast.In: "CIn", ast.NotIn: "CNotIn"}


class Translator:
    def __init__(self, names=None):
        self.names = list(names) if names else []
        self.idx = {n: i + 1 for i, n in enumerate(self.names)}

    def ident(self, name):
        if name not in self.idx:
            self.names.append(name)
            self.idx[name] = len(self.names)
        return "%d%%positive" % self.idx[name]

    def expr(self, e):
        t = type(e)
        if t is ast.Name:
            return "(EName %s)" % self.ident(e.id)
        if t is ast.Constant:
            v = e.value
            if v is None:
                return "ENone"
            if isinstance(v, bool):
                return "(EBool %s)" % ("true" if v else "false")
            if isinstance(v, int):
                return "(EInt (%d)%%Z)" % v
            if isinstance(v, str):
                return "(EStr %s)" % cstr(v)
            if isinstance(v, float) and v == v and v not in (float("inf"), -float("inf")):
                # a finite float literal of the text: spelled float.fromhex(<exact value>) on both sides of the C09 comparison;
                # the interpreter evaluates it exactly (Model/Interp.v)
                return "(ECall (EAttr (EName %s) \"fromhex\") [EStr %s] [])" % (self.ident("float"), cstr(v.hex()))
            raise Unsupported("constant %r" % (v,))
        if t is ast.BinOp:
            if type(e.op) not in BINOPS:
                raise Unsupported("binop %s" % type(e.op).__name__)
            return "(EBin %s %s %s)" % (BINOPS[type(e.op)], self.expr(e.left), self.expr(e.right))
        if t is ast.UnaryOp:
            if type(e.op) is ast.USub:
                return "(ENeg %s)" % self.expr(e.operand)
            raise Unsupported("unaryop %s" % type(e.op).__name__)
        if t is ast.Compare:
            if len(e.ops) != 1 or type(e.ops[0]) not in CMPOPS:
                raise Unsupported("compare %s" % ast.dump(e))
            return "(ECmp %s %s %s)" % (CMPOPS[type(e.ops[0])], self.expr(e.left), self.expr(e.comparators[0]))
        if t is ast.Call:
            for a in e.args:
                if isinstance(a, ast.Starred):
                    raise Unsupported("starred arg")
            kws = []
            for k in e.keywords:
                if k.arg is None:
                    raise Unsupported("**kwargs")
                kws.append("(%s, %s)" % (cstr(k.arg), self.expr(k.value)))
            return "(ECall %s %s %s)" % (self.expr(e.func), clist(self.expr(a) for a in e.args), clist(kws))
        if t is ast.Attribute:
            return "(EAttr %s %s)" % (self.expr(e.value), cstr(e.attr))
        if t is ast.Subscript:
            if isinstance(e.slice, ast.Slice):
                raise Unsupported("slice")
            return "(ESub %s %s)" % (self.expr(e.value), self.expr(e.slice))
        if t is ast.Tuple:
            return "(ETuple %s)" % clist(self.expr(x) for x in e.elts)
        if t is ast.List:
            return "(EList %s)" % clist(self.expr(x) for x in e.elts)
        if t is ast.Dict:
            if any(k is None for k in e.keys):
                raise Unsupported("dict unpacking")
            return "(EDict %s)" % clist("(%s, %s)" % (self.expr(k), self.expr(v)) for k, v in zip(e.keys, e.values))
        if t is ast.Lambda:
            a = e.args
            if a.vararg or a.kwarg or a.kwonlyargs or a.defaults or a.posonlyargs or a.kw_defaults:
                raise Unsupported("lambda signature")
            return "(ELam %s %s)" % (clist(self.ident(x.arg) for x in a.args), self.expr(e.body))
        if t is ast.ListComp:
            if len(e.generators) != 1:
                raise Unsupported("listcomp generators")
            g = e.generators[0]
            if g.ifs or g.is_async or not isinstance(g.target, ast.Name):
                raise Unsupported("listcomp shape")
            return "(EComp %s %s %s)" % (self.expr(e.elt), self.ident(g.target.id), self.expr(g.iter))
        raise Unsupported("expression %s" % t.__name__)

    def pat(self, p):
        if isinstance(p, ast.Name):
            return "(PName %s)" % self.ident(p.id)
        if isinstance(p, ast.Tuple):
            return "(PTup %s)" % clist(self.pat(x) for x in p.elts)
        raise Unsupported("loop target %s" % type(p).__name__)

    def target(self, t):
        if isinstance(t, ast.Name):
            return "(TName %s)" % self.ident(t.id)
        if isinstance(t, ast.Subscript):
            if isinstance(t.slice, ast.Slice):
                raise Unsupported("slice target")
            return "(TSub %s %s)" % (self.expr(t.value), self.expr(t.slice))
        raise Unsupported("assignment target %s" % type(t).__name__)

    def stmt(self, s):
        t = type(s)
        if t is ast.Assign:
            if len(s.targets) != 1:
                raise Unsupported("chained assignment")
            return "(SAssign %s %s)" % (self.target(s.targets[0]), self.expr(s.value))
        if t is ast.AugAssign:
            if type(s.op) not in BINOPS:
                raise Unsupported("augop")
            return "(SAug %s %s %s)" % (BINOPS[type(s.op)], self.target(s.target), self.expr(s.value))
        if t is ast.Expr:
            return "(SExpr %s)" % self.expr(s.value)
        if t is ast.For:
            if s.orelse:
                raise Unsupported("for-else")
            return "(SFor %s %s %s)" % (self.pat(s.target), self.expr(s.iter), self.block(s.body))
        if t is ast.If:
            return "(SIf %s %s %s)" % (self.expr(s.test), self.block(s.body), self.block(s.orelse))
        raise Unsupported("statement %s" % t.__name__)

    def block(self, stmts):
        return clist(self.stmt(s) for s in stmts)


def translate(text, names=None):
    tree = ast.parse(text)  # SyntaxError propagates: the text is not Python
    tr = Translator(names)
    term = tr.block(tree.body)
    return term, tr.names
