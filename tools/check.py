#!/venv/bin/python
"""Single entry point of every check registered in MANIFEST.json.

    check.py <ID> [--tier quick|thorough] [--replay FILE]

Protocol (DESIGN.md 3.2): build the Coq development; ask the kernel which
theorems of Props/<ID>.v check and what they assume; then run the property's
tie to /repo's current working tree (tools/props/<id>.py).  A theorem that no
longer checks, or a tie that breaks, is a violation; the property module
searches for a concrete failing input and reports it as the replay.
"""
import argparse
import importlib
import json
import os
import re
import subprocess
import sys
import time
import traceback

HERE = os.path.dirname(os.path.abspath(__file__))
sys.path.insert(0, HERE)

# determinism: fixed hash seed for the checking process itself
if os.environ.get("PYTHONHASHSEED") != "0":
    os.environ["PYTHONHASHSEED"] = "0"
    os.execv(sys.executable, [sys.executable] + sys.argv)

import vlib  # noqa

ALLOWED_AXIOM_HEADS = ()  # none needed so far; float/int primitives are reported separately


def theorem_assumptions(pid, names):
    """Ask coqc for Print Assumptions of each property theorem. Returns
    {name: text}; a missing name means the theorem does not check."""
    if not names:
        return {}
    os.makedirs(vlib.GENDIR, exist_ok=True)
    path = os.path.join(vlib.GENDIR, "pa_%s_%d.v" % (pid, os.getpid()))
    with open(path, "w") as f:
        f.write("Require Import TV.Props.%s.\n" % pid)
        for n in names:
            f.write('Goal True. idtac "@@BEGIN %s". exact I. Qed.\nPrint Assumptions %s.\n' % (n, n))
        f.write('Goal True. idtac "@@END". exact I. Qed.\n')
    p = subprocess.run(["timeout", "600", "coqc", "-q", "-Q", vlib.COQDIR, "TV", path], cwd=vlib.GENDIR,
                       stdout=subprocess.PIPE, stderr=subprocess.STDOUT, text=True)
    out = p.stdout
    res = {}
    for m in re.finditer(r'@@BEGIN (\S+)\n(.*?)(?=@@BEGIN|@@END)', out, re.S):
        res[m.group(1)] = m.group(2).strip()
    for ext in (".v", ".vo", ".vok", ".vos", ".glob"):
        try:
            os.remove(path[:-2] + ext)
        except OSError:
            pass
    return res


def classify_assumptions(txt):
    """-> (closed, primitives, axioms) from a Print Assumptions output."""
    if "Closed under the global context" in txt:
        return True, [], []
    prims, axioms = [], []
    # entries look like `name : type` (possibly continued on indented lines)
    entries = []
    for line in txt.splitlines():
        if line.strip() in ("Axioms:", ""):
            continue
        if re.match(r'^\S', line):
            entries.append(line)
        elif entries:
            entries[-1] += " " + line.strip()
    PRIM_TYPES = {"int", "float", "bool", "Set", "comparison", "float_comparison", "float_class", "carry", "prod", "*", "->", "(", ")"}
    for e in entries:
        m = re.match(r'^([A-Za-z0-9_\.\']+)\s*:\s*(.*)$', e)
        if not m:
            axioms.append(e)
            continue
        name, typ = m.group(1), m.group(2)
        toks = set(re.findall(r"[A-Za-z_][A-Za-z0-9_\.']*|->|\*|\(|\)", typ))
        toks = set(t.split(".")[-1] for t in toks)
        if name.startswith(("PrimInt63.", "PrimFloat.")) or (toks <= PRIM_TYPES and ("int" in toks or "float" in toks)):
            prims.append(name)       # Coq's primitive machine integers / binary64 floats (kernel primitives, not axioms of this development)
        else:
            axioms.append(name)
    return False, prims, axioms


def main():
    ap = argparse.ArgumentParser()
    ap.add_argument("pid")
    ap.add_argument("--tier", default=os.environ.get("VERIF_TIER", "quick"))
    ap.add_argument("--replay", default=None)
    args = ap.parse_args()
    pid = args.pid
    tier = args.tier if args.tier in ("quick", "thorough") else "quick"
    seed = int(os.environ.get("VERIF_SEED", "0") or 0)
    vlib.setup_repo_path()
    ctx = vlib.Ctx(pid, tier, seed)
    mod = importlib.import_module("props.%s" % pid.lower())
    ctx.level = getattr(mod, "LEVEL", "other")

    if args.replay:
        rep = json.load(open(args.replay))
        rc = mod.replay(ctx, rep)
        sys.exit(rc)

    # 1. the theorems ---------------------------------------------------------
    build_log = ""
    build_ok = True
    try:
        vlib.coq_make()
    except vlib.CoqBuildError as e:
        build_ok = False
        build_log = e.log
    bad = vlib.scan_forbidden()
    names = vlib.list_theorems(pid)
    broken = []
    thm_info = {}
    if vlib.vo_ok("Props/" + pid):
        pa = theorem_assumptions(pid, names)
        for n in names:
            if n not in pa:
                broken.append(n)
                continue
            closed, prims, axioms = classify_assumptions(pa[n])
            thm_info[n] = {"closed": closed, "kernel_primitives": prims, "axioms": axioms}
            if axioms:
                broken.append(n + " (depends on axioms: %s)" % ", ".join(axioms))
    else:
        broken = list(names) or ["Props/%s.v" % pid]
    if bad:
        broken.append("forbidden construct in development: %s" % bad[:3])
    ctx.coverage["obligations"] = len(names)
    ctx.coverage["discharged"] = len(names) - len([b for b in broken if b.split(" ")[0] in names])
    ctx.coverage["theorems"] = thm_info
    ctx.coverage["checker_cmd"] = "cd /verif/coq && coq_makefile -f _CoqProject -o Makefile && make (coqc 8.16.1, full .vo build) ; Print Assumptions per theorem"
    ctx.proof_broken = broken
    ctx.build_ok = build_ok
    ctx.build_log = build_log

    # 2. the tie to the current tree -------------------------------------------
    try:
        mod.run(ctx)
    except vlib.CoqBuildError as e:
        ctx.violation({"kind": "coq-eval-failed"}, "kernel evaluation of generated cases failed: %s" % e,
                      {"log": e.log[-4000:]}, no_input=True)
    except Exception:
        tb = traceback.format_exc()
        ctx.violation({"kind": "harness-exception"}, "check raised an exception (tie to the code could not be established): %s" % tb[-1500:],
                      {"traceback": tb}, no_input=True)

    # 3. a broken theorem with no failing input found by the module -------------
    if broken and not ctx.violations:
        ctx.violation({"kind": "theorem-broken", "theorems": broken},
                      "theorem(s) no longer check: %s" % "; ".join(broken),
                      {"theorems": broken, "build_log_tail": build_log[-4000:]}, no_input=True)
    rc = ctx.finish()
    print("%s %s tier=%s seed=%d wall=%.1fs violations=%d" % ("FAIL" if rc else "OK", pid, tier, seed,
                                                              time.time() - ctx.t0, len(ctx.violations)))
    sys.exit(rc)


if __name__ == "__main__":
    main()
