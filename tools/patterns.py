"""Static side conditions read off an emitted program (shared by C02 and C04).

eager_inputs_aligned: the eager-interval form indexes `inputs_<r>.getCoords()` with the position `<r>_pos` delivered by
`enumerate(...)` around the loop over <r>.  Positions of the loop and of `inputs_<r>` denote the same partition for ALL
inputs iff both enumerate the same fiber expression; if the expressions differ (e.g. one intersects a further operand)
there are inputs on which an operand lacks a partition and every later position is off by one."""
import ast


def eager_inputs_aligned(text):
    """-> list of (rank, inputs_expr, loop_expr) for every `inputs_<r>` whose defining expression is not the expression the
    enumerated loop over <r> iterates (output side of `<<` removed)."""
    tree = ast.parse(text)
    inputs = {}
    bad = []
    for node in ast.walk(tree):
        if isinstance(node, ast.Assign) and len(node.targets) == 1 and isinstance(node.targets[0], ast.Name) \
                and node.targets[0].id.startswith("inputs_"):
            v = node.value
            if isinstance(v, ast.Call) and isinstance(v.func, ast.Attribute) and v.func.attr == "fromLazy" and len(v.args) == 1:
                inputs[node.targets[0].id[len("inputs_"):]] = v.args[0]
    for node in ast.walk(tree):
        if isinstance(node, ast.For) and isinstance(node.iter, ast.Call) and isinstance(node.iter.func, ast.Name) \
                and node.iter.func.id == "enumerate" and isinstance(node.target, ast.Tuple) \
                and isinstance(node.target.elts[0], ast.Name) and node.target.elts[0].id.endswith("_pos"):
            r = node.target.elts[0].id[:-len("_pos")]
            if r not in inputs:
                continue
            # is the position used to index inputs_<r>?
            used = any(isinstance(n, ast.Name) and n.id == "inputs_" + r for n in ast.walk(node))
            if not used:
                continue
            e = node.iter.args[0]
            if isinstance(e, ast.BinOp) and isinstance(e.op, ast.LShift):
                e = e.right
            if ast.dump(e) != ast.dump(inputs[r]):
                bad.append((r, ast.unparse(inputs[r]), ast.unparse(e)))
    return bad


# ----------------------------------------------------------------------------
# C11: explicit shapes and leader-follower payload order
# ----------------------------------------------------------------------------

def _kw(call, name):
    for k in call.keywords:
        if k.arg == name:
            return k.value
    return None


def tensor_constructors(text):
    """-> list of (target variable, tensor name, rank_ids list, shape list of source strings or None) for every
    `X = Tensor(rank_ids=[...], name="N"[, shape=[...]])` of the program."""
    out = []
    for node in ast.walk(ast.parse(text)):
        if isinstance(node, ast.Assign) and isinstance(node.value, ast.Call) and isinstance(node.value.func, ast.Name) \
                and node.value.func.id == "Tensor" and len(node.targets) == 1 and isinstance(node.targets[0], ast.Name):
            ids, name, shape = _kw(node.value, "rank_ids"), _kw(node.value, "name"), _kw(node.value, "shape")
            if not isinstance(ids, ast.List) or not isinstance(name, ast.Constant):
                continue
            out.append((node.targets[0].id, name.value, [e.value if isinstance(e, ast.Constant) else ast.unparse(e) for e in ids.elts],
                        None if shape is None else ([ast.unparse(e) for e in shape.elts] if isinstance(shape, ast.List) else ast.unparse(shape))))
    return out


def root_of(rank_id, declared, partitioned):
    """The declared rank a rank id of the loop nest belongs to: itself when declared, else <R><level> of a partitioned
    declared rank R (decided from the specification, not from the compiler's partitioning IR)."""
    if rank_id in declared:
        return rank_id
    stem = rank_id.rstrip("0123456789")
    if stem != rank_id and stem in declared and stem in partitioned:
        return stem
    return None


def shape_problems(text, decl, partitioned_by_out, outs, require_shape):
    """An explicit shape must give, position by position, the extent of the declared rank each rank id belongs to
    (shape[i] is the extent of rank_ids[i]: a partition level has the extent of its root rank).
    decl: tensor -> declared ranks; partitioned_by_out: output -> set of partitioned declared ranks;
    require_shape: outputs must carry an explicit shape (metrics mode).
    -> list of dict(tensor, rank_ids, shape, want, kind)."""
    bad = []
    for var, name, ids, shape in tensor_constructors(text):
        if name not in decl:
            continue
        if shape is None:
            if require_shape and name in outs and ids:
                bad.append({"kind": "shape-missing", "tensor": name, "rank_ids": ids, "shape": None, "want": None})
            continue
        part = partitioned_by_out.get(name, set())
        want = [root_of(r, decl[name], part) for r in ids]
        if not isinstance(shape, list) or shape != want:
            bad.append({"kind": "shape-misaligned", "tensor": name, "rank_ids": ids, "shape": shape, "want": want})
    return bad


def _names(node):
    """Names of a (nested) tuple pattern / of the operand expressions, left to right."""
    if isinstance(node, ast.Name):
        return [node.id]
    if isinstance(node, (ast.Tuple, ast.List)):
        return [n for e in node.elts for n in _names(e)]
    return []


def lf_payload_problems(text):
    """The runtime hands the payloads of Fiber.intersection(f1, ..., fn, style="leader-follower") over in ARGUMENT
    order, so the loop's payload pattern must name the operands in the order of the arguments (operand <t>_<rank> and
    payload <t>_<rank'> / <t>_val carry the tensor's name as their prefix).
    -> list of (pattern names, argument names, source line)."""
    bad = []
    for node in ast.walk(ast.parse(text)):
        if not isinstance(node, ast.For):
            continue
        it = node.iter
        if isinstance(it, ast.Call) and isinstance(it.func, ast.Name) and it.func.id == "enumerate" and it.args:
            it = it.args[0]
        out_pref = None
        if isinstance(it, ast.BinOp) and isinstance(it.op, ast.LShift):
            out_pref = _names(it.left)
            it = it.right
        if not (isinstance(it, ast.Call) and isinstance(it.func, ast.Attribute) and it.func.attr == "intersection"
                and isinstance(it.func.value, ast.Name) and it.func.value.id == "Fiber"):
            continue
        args = []
        for a in it.args:
            # operand: a fiber variable, possibly wrapped in method calls (project ...)
            while isinstance(a, ast.Call) and isinstance(a.func, ast.Attribute):
                a = a.func.value
            args.append(a.id.split("_")[0] if isinstance(a, ast.Name) else "?")
        tgt = node.target
        if isinstance(tgt, ast.Tuple) and len(tgt.elts) == 2 and isinstance(tgt.elts[0], ast.Name) and tgt.elts[0].id.endswith("_pos"):
            tgt = tgt.elts[1]
        if not (isinstance(tgt, ast.Tuple) and len(tgt.elts) == 2):
            bad.append(([], args, ast.unparse(node).split("\n")[0]))
            continue
        pay = tgt.elts[1]
        if out_pref is not None:
            if not (isinstance(pay, ast.Tuple) and len(pay.elts) == 2):
                bad.append(([], args, ast.unparse(node).split("\n")[0]))
                continue
            pay = pay.elts[1]
        names = [n.split("_")[0] for n in _names(pay)]
        if names != args:
            bad.append((names, args, ast.unparse(node).split("\n")[0]))
    return bad
