"""Static side conditions read off an emitted program (shared by C02 and C04).

eager_inputs_aligned: the eager-interval form indexes `inputs_<r>.getCoords()` with the position `<r>_pos` delivered by
`enumerate(...)` around the loop over <r>.  Positions of the loop and of `inputs_<r>` denote the same partition for ALL
inputs iff both enumerate the same fiber expression; if the expressions differ (e.g. one intersects a further operand)
there are inputs on which an operand lacks a partition and every later position is off by one."""
import ast


def eager_inputs_aligned(text):
    """-> list of (rank, inputs_expr, loop_expr) for every `inputs_<r>` whose defining expression is not the expression the
    enumerated loop over <r> iterates (output side of `<<` removed)."""
    tree = ast.parse(text)
    inputs = {}
    bad = []
    for node in ast.walk(tree):
        if isinstance(node, ast.Assign) and len(node.targets) == 1 and isinstance(node.targets[0], ast.Name) \
                and node.targets[0].id.startswith("inputs_"):
            v = node.value
            if isinstance(v, ast.Call) and isinstance(v.func, ast.Attribute) and v.func.attr == "fromLazy" and len(v.args) == 1:
                inputs[node.targets[0].id[len("inputs_"):]] = v.args[0]
    for node in ast.walk(tree):
        if isinstance(node, ast.For) and isinstance(node.iter, ast.Call) and isinstance(node.iter.func, ast.Name) \
                and node.iter.func.id == "enumerate" and isinstance(node.target, ast.Tuple) \
                and isinstance(node.target.elts[0], ast.Name) and node.target.elts[0].id.endswith("_pos"):
            r = node.target.elts[0].id[:-len("_pos")]
            if r not in inputs:
                continue
            # is the position used to index inputs_<r>?
            used = any(isinstance(n, ast.Name) and n.id == "inputs_" + r for n in ast.walk(node))
            if not used:
                continue
            e = node.iter.args[0]
            if isinstance(e, ast.BinOp) and isinstance(e.op, ast.LShift):
                e = e.right
            if ast.dump(e) != ast.dump(inputs[r]):
                bad.append((r, ast.unparse(inputs[r]), ast.unparse(e)))
    return bad
