"""Wider populations for the partitioning properties (C03, C07; usable by any population).

Two independent generalisations of tools/specgen.py:

1. rename_ranks(): the generators of specgen.py only ever name ranks J, K, M, N (Q, S, W, ... for index math).  A rank's
   NAME is semantically irrelevant, so every generated specification can be renamed by an injective map into a wide pool:
   other single letters (I, O, ...), names ending in the letter I (I, KI, PI - the suffix the compiler gives to its own
   occupancy intermediates K1I), names ending in / containing digits (K1, M20 - the suffix of partition levels), long
   names (ROW, KK).  The renamed set is kept prefix-free so that every concatenation (<Tensor>_<Ranks>, flattened names,
   level names) still decodes uniquely.

2. wide_partition_mapping(): occupancy stacks of 1-3 levels whose LEADER is chosen per level (any tensor holding the
   rank), literal or symbolic sizes, alone or beneath 1-2 shape levels; flatten() of 2-3 ranks of ANY tensor (the output
   included; a contiguous run of its rank order or an arbitrary tuple; components may be the bottom level of a
   shape-split rank, e.g. (M, K0)); a second, disjoint flatten; occupancy of the flattened rank; loop order = random
   linear extension of "each rank's levels outermost-to-innermost" (sometimes the one that leaves the output's ranks in
   place, sometimes omitted so that the compiler's default is used).
"""
import keyword
import re

import specgen

SINGLE = ["I", "J", "K", "L", "M", "N", "O", "T", "U", "V", "W", "X", "Y"]
ENDS_I = ["I", "KI", "MI", "PI", "XI", "JI", "NI", "II", "K1I", "M0I"]
DIGITS = ["K1", "M2", "N0", "X3", "J10", "K1M", "M01", "I2", "N21"]
LONG = ["KK", "MN", "ROW", "COL", "KM", "NO", "IJ", "KJ"]
# names the emitted program itself uses (lower-cased rank names become loop variables)
RESERVED = set(["a", "b", "len", "min", "max", "int", "set", "float", "range", "enumerate", "tmp"]) | set(keyword.kwlist)


def _ok_name(n, taken, tensors):
    lo = n.lower()
    if lo in RESERVED or keyword.iskeyword(lo) or n in tensors or not n[0].isupper():
        return False
    if re.match(r'^tmp\d*$', lo):
        return False
    for t in taken:
        if t.startswith(n) or n.startswith(t) or t.lower() == lo:
            return False
    return True


def name_map(rng, roots, tensors, style=None):
    """An injective, prefix-free renaming of the root rank names `roots` (single capital letters)."""
    style = style or rng.choice(["letters", "letters", "endsI", "endsI", "digits", "long", "mixed"])
    pools = {"letters": SINGLE, "endsI": ENDS_I + SINGLE, "digits": DIGITS + SINGLE, "long": LONG + SINGLE,
             "mixed": ENDS_I + DIGITS + LONG + SINGLE}
    special = {"endsI": ENDS_I, "digits": DIGITS, "long": LONG}.get(style)
    for attempt in range(50):
        taken = []
        rmap = {}
        order = list(roots)
        rng.shuffle(order)
        ok = True
        for k, r in enumerate(order):
            pool = special if (special and k == 0) else pools[style]
            cands = [n for n in pool if _ok_name(n, taken, tensors)]
            if not cands:
                ok = False
                break
            # style pools list the special names first; draw them with extra weight
            n = rng.choice(cands[:max(1, len(cands) // 2)] if (special and rng.random() < 0.4) else cands)
            rmap[r] = n
            taken.append(n)
        if ok:
            return rmap, style
    return {r: r for r in roots}, "identity"


def _map_level(s, rmap):
    """'MK1' / 'K0' / 'KMN' (concatenations of single-letter roots with level digits) -> renamed"""
    return "".join(rmap.get(ch, ch) for ch in s)


def _map_expr(e, rmap):
    lo = {k.lower(): v.lower() for k, v in rmap.items()}

    def inside(m):
        return "[" + re.sub(r'[A-Za-z_][A-Za-z_0-9]*', lambda t: lo.get(t.group(0), t.group(0)), m.group(1)) + "]"
    return re.sub(r'\[([^\]]*)\]', inside, e)


def _map_directive(d, rmap):
    m = re.match(r'^follow\((\w+)\)$', d)
    if m:
        return "follow(%s)" % _map_level(m.group(1), rmap)
    return d


def rename_ranks(rng, decl, exprs, mapping, style=None):
    """-> (decl, exprs, mapping, rmap, style) with every rank renamed; the input must use single capital letters for
    ranks (every generator of specgen.py does); otherwise the specification is returned unchanged."""
    roots = []
    for rs in decl.values():
        for r in rs:
            if r not in roots:
                roots.append(r)
    if not roots or any(not re.match(r'^[A-Z]$', r) for r in roots):
        return decl, exprs, mapping, {}, "identity"
    rmap, style = name_map(rng, roots, set(decl), style)
    decl2 = {t: [rmap[r] for r in rs] for t, rs in decl.items()}
    exprs2 = [_map_expr(e, rmap) for e in exprs]
    mp2 = {}
    for sec, body in (mapping or {}).items():
        if not body:
            mp2[sec] = body
        elif sec == "rank-order":
            mp2[sec] = {t: [rmap[r] for r in rs] for t, rs in body.items()}
        elif sec == "loop-order":
            mp2[sec] = {t: [_map_level(x, rmap) for x in xs] for t, xs in body.items()}
        elif sec == "partitioning":
            out = {}
            for t, parts in body.items():
                p2 = {}
                for key, ds in parts.items():
                    if key.startswith("("):
                        comps = [c.strip() for c in key.strip("()").split(",")]
                        key2 = "(%s)" % ", ".join(_map_level(c, rmap) for c in comps)
                    else:
                        key2 = _map_level(key, rmap)
                    p2[key2] = [_map_directive(d, rmap) for d in ds]
                out[t] = p2
            mp2[sec] = out
        elif sec == "spacetime":
            out = {}
            for t, st in body.items():
                def one(x):
                    base, dot, suf = x.partition(".")
                    return _map_level(base, rmap) + dot + suf
                st2 = dict(st)
                st2["space"] = [one(x) for x in st["space"]]
                st2["time"] = [one(x) for x in st["time"]]
                out[t] = st2
            mp2[sec] = out
        else:
            mp2[sec] = body
    return decl2, exprs2, mp2, rmap, style


# ----------------------------------------------------------------------------
# occupancy / flatten, wide
# ----------------------------------------------------------------------------

def _topo(rng, nodes, before):
    """random linear extension: `before` = set of (x, y) meaning x must precede y"""
    left = list(nodes)
    out = []
    while left:
        free = [x for x in left if not any(b == x and a in left for a, b in before)]
        x = rng.choice(free)
        out.append(x)
        left.remove(x)
    return out


def gen_product_einsum(rng, max_ranks=4, max_factors=3):
    return specgen.gen_plain_einsum(rng, max_ranks=max_ranks, max_terms=1, max_factors=max_factors, take_p=0.0,
                                    scalar_p=0.1, rank0_p=0.0)


def _occ_stack(rng, rank_name, leaders, syms, max_levels=3, sym_p=0.15):
    n = rng.choice([1, 1, 2, 2, 3][:1 + 2 * (max_levels - 1)])
    ds = []
    size = rng.randint(2, 6)
    lead = rng.choice(leaders)
    used = []
    for i in range(n):
        if i > 0 and rng.random() < 0.5:
            lead = rng.choice(leaders)          # the leader may change from level to level
        used.append(lead)
        if rng.random() < sym_p:
            nm = "%sOS%d" % (rank_name, i)
            syms[nm] = size
            ds.append("uniform_occupancy(%s.%s)" % (lead, nm))
        else:
            ds.append("uniform_occupancy(%s.%d)" % (lead, size))
        size = max(1, size // 2) if rng.random() < 0.8 else rng.randint(1, 5)
    return ds, used


def wide_partition_mapping(rng, es, shape_p=0.3, flatten_p=0.5, second_flatten_p=0.35, occ_flat_p=0.55, occ_free_p=0.5,
                           concordant_p=0.3, default_loop_p=0.08):
    """-> (mapping, syms, features) or (None, None, None)."""
    m = specgen.random_mapping(rng, es, loop_order_p=0.0)
    out = es["out"]
    decl = es["decl"]
    ranks = list(es["ranks"])
    part, syms = {}, {}
    feats = {"shape": 0, "flatten": 0, "flatten_out": 0, "flatten_level0": 0, "occ_levels": 0, "mixed_leaders": 0,
             "occ_on_flat": 0, "occ_under_shape": 0, "concordant": 0, "default_loop": 0, "out_rank_partitioned": 0}

    def order(t):
        return m["rank-order"].get(t, decl[t])

    # A. shape splits
    shape_depth = {}
    if rng.random() < shape_p:
        for r in rng.sample(ranks, 1 if rng.random() < 0.75 else min(2, len(ranks))):
            d = rng.choice([1, 1, 2])
            ds, s = specgen.gen_shape_stack(rng, r, d, sym_p=0.2, nway_p=0.25)
            part[r] = ds
            syms.update(s)
            shape_depth[r] = d
            feats["shape"] += 1

    # B. flatten tuples
    flats = []      # (components, roots, name)
    used_roots = set()
    nflat = 0
    if len(ranks) >= 2 and rng.random() < flatten_p:
        nflat = 2 if (len(ranks) >= 4 and rng.random() < second_flatten_p) else 1
    for _ in range(nflat):
        cands = [t for t in decl if len([r for r in decl[t] if r not in used_roots]) >= 2]
        if not cands:
            break
        t = rng.choice(cands)
        avail = [r for r in order(t) if r not in used_roots]
        k = rng.randint(2, min(3, len(avail)))
        if nflat == 2:
            k = 2
        if rng.random() < 0.5:
            i = rng.randint(0, len(avail) - k)
            roots = avail[i:i + k]                       # a contiguous run of the tensor's rank order
        else:
            roots = rng.sample(avail, k)
        comps = []
        for r in roots:
            if r in shape_depth:
                comps.append(r + "0")
                feats["flatten_level0"] += 1
            else:
                comps.append(r)
        name = "".join(comps)
        part["(%s)" % ", ".join(comps)] = ["flatten()"]
        flats.append((comps, roots, name))
        used_roots.update(roots)
        feats["flatten"] += 1
        if all(r in decl[out] for r in roots):
            feats["flatten_out"] += 1

    # C. occupancy
    occ_levels = {}     # loop-unit name -> number of occupancy directives
    for comps, roots, name in flats:
        leaders = [t for t in decl if t != out and all(r in decl[t] for r in roots)]
        if leaders and rng.random() < occ_flat_p:
            ds, used = _occ_stack(rng, name, leaders, syms)
            part[name] = ds
            occ_levels[name] = len(ds)
            feats["occ_on_flat"] += 1
            feats["occ_levels"] = max(feats["occ_levels"], len(ds))
            if len(set(used)) > 1:
                feats["mixed_leaders"] += 1
    free = [r for r in ranks if r not in used_roots]
    if free and (rng.random() < occ_free_p or not part):
        for r in rng.sample(free, 1 if rng.random() < 0.8 else min(2, len(free))):
            leaders = specgen.holders(es, r)
            if not leaders:
                continue
            ds, used = _occ_stack(rng, r, leaders, syms)
            if r in shape_depth:
                # nway_shape may not follow a dynamic split, the reverse is fine
                part[r] = part[r] + ds
                feats["occ_under_shape"] += 1
            else:
                part[r] = ds
            occ_levels[r] = len(ds)
            feats["occ_levels"] = max(feats["occ_levels"], len(ds))
            if len(set(used)) > 1:
                feats["mixed_leaders"] += 1
    if not part:
        return None, None, None
    for key in part:
        if not key.startswith("(") and key in decl[out]:
            feats["out_rank_partitioned"] += 1
    m["partitioning"] = {out: part}

    # D. loop order
    nodes, before = [], set()
    chains = {}
    for r in ranks:
        if r in used_roots:
            # only the upper shape levels of a flattened level-0 component are loop ranks of their own
            if r in shape_depth:
                chains[r] = ["%s%d" % (r, i) for i in range(shape_depth[r], 0, -1)]
        else:
            n = len(part.get(r, []))
            chains[r] = specgen.levels_of(r, n) if n else [r]
    for comps, roots, name in flats:
        n = occ_levels.get(name, 0)
        chains[name] = specgen.levels_of(name, n) if n else [name]
        for r in roots:
            if r in shape_depth:
                before.add((chains[r][-1], chains[name][0]))
    for ch in chains.values():
        nodes.extend(ch)
        for a, b in zip(ch, ch[1:]):
            before.add((a, b))
    if rng.random() < concordant_p:
        # leave the output's ranks in place: units in the order of the output's rank order, the others anywhere after
        feats["concordant"] = 1
        pos = {}
        for i, r in enumerate(order(out)):
            pos[r] = i
        unit_of = {}
        for r, ch in chains.items():
            for x in ch:
                unit_of[x] = r
        flat_roots = {name: roots for _, roots, name in flats}

        def key(x):
            u = unit_of[x]
            rs = flat_roots.get(u, [u])
            ps = [pos[r] for r in rs if r in pos]
            return (min(ps) if ps else len(pos) + 1)
        loop = sorted(_topo(rng, nodes, before), key=key)      # stable: keeps every chain in order
        # a stable sort by unit keeps chains ordered but may break a (shape level -> flattened rank) precedence
        if any(loop.index(a) > loop.index(b) for a, b in before):
            loop = _topo(rng, nodes, before)
            feats["concordant"] = 0
    else:
        loop = _topo(rng, nodes, before)
    if rng.random() < default_loop_p:
        feats["default_loop"] = 1
        m["loop-order"] = {}
    else:
        m["loop-order"] = {out: loop}
    return m, syms, feats


def wide_items(rng, n, rename_p=0.6, max_ranks=4, **kw):
    """population items (see popgen.py): product Einsums x wide_partition_mapping(**kw) x optional renaming"""
    k = 0
    while k < n:
        es = gen_product_einsum(rng, max_ranks=max_ranks)
        mp, syms, feats = wide_partition_mapping(rng, es, **kw)
        if mp is None:
            continue
        k += 1
        decl, exprs = es["decl"], [es["expr"]]
        style = "identity"
        rmap = {}
        if rng.random() < rename_p:
            decl, exprs, mp, rmap, style = rename_ranks(rng, decl, exprs, mp)
        feats = dict(feats, naming=style)
        yield {"yaml": specgen.yaml_of(decl, exprs, mp), "syms": syms or {}, "kind": "wide", "mapping": mp,
               "features": feats, "rmap": rmap, "out": es["out"]}


def renamed(rng, items, p=0.5):
    """Rename the ranks of items of any other population (popgen.plain/shape/occupancy/cascade/affine)."""
    for it in items:
        if rng.random() >= p:
            yield it
            continue
        if "es" in it:
            decl, exprs = it["es"]["decl"], [it["es"]["expr"]]
        else:
            decl, exprs = it["decl"], it["exprs"]
        decl2, exprs2, mp2, rmap, style = rename_ranks(rng, decl, exprs, it["mapping"])
        if not rmap:
            yield it
            continue
        it2 = dict(it)
        it2.pop("es", None)
        it2.update({"yaml": specgen.yaml_of(decl2, exprs2, mp2), "mapping": mp2, "kind": it["kind"] + "+renamed",
                    "rmap": rmap, "naming": style, "decl": decl2, "exprs": exprs2})
        yield it2


# ----------------------------------------------------------------------------
# structural classes of specifications the unchanged compiler does not translate
# ----------------------------------------------------------------------------

def flatten_tuples(decl, part):
    """[(roots, components)] of the flatten() directives of one Einsum's partitioning; a component is a root rank or the
    bottom level <root>0 of a shape-split rank"""
    allr = set(r for rs in decl.values() for r in rs)
    res = []
    for key in part:
        if not key.startswith("("):
            continue
        comps = [c.strip() for c in key.strip("()").split(",")]
        roots = [c if c in allr else c[:-1] for c in comps]
        res.append((roots, comps))
    return res


def rejection_class(decl, out, part):
    """Which documented limitation (if any) a specification of C03's class falls under.
    'output-only-flatten'          no input tensor holds all ranks of a flatten tuple: the compiler refuses it with the
                                   diagnostic 'Illegal dataflow: cannot iterate over output-only flattened rank'
    'flatten-partly-in-output'     the output holds some but not all ranks of a flatten tuple: the unchanged compiler
                                   crashes (KeyError in Header.__make_shape) - a known finding, not a diagnostic"""
    cls = set()
    for roots, comps in flatten_tuples(decl, part):
        if not any(all(r in rs for r in roots) for t, rs in decl.items() if t != out):
            cls.add("output-only-flatten")
        k = len([r for r in roots if r in decl[out]])
        if 0 < k < len(roots):
            cls.add("flatten-partly-in-output")
    return cls


# ----------------------------------------------------------------------------
# two partitioned Einsums in one specification (state kept across Einsums / keyed by rank name shows here)
# ----------------------------------------------------------------------------

def _retensor(es, tmap):
    """rename the tensors of a generated Einsum (declaration + expression)"""
    decl = {tmap.get(t, t): list(rs) for t, rs in es["decl"].items()}
    expr = re.sub(r'\b([A-Z][A-Za-z0-9]*)\[', lambda m: tmap.get(m.group(1), m.group(1)) + "[", es["expr"])
    return dict(es, decl=decl, expr=expr, out=tmap.get(es["out"], es["out"]))


def wide_pairs(rng, n, rename_p=0.5, chain_p=0.6, **kw):
    """Specifications with TWO product Einsums over the same rank names, each with its own wide partitioning (its own
    leaders, level stacks, flatten tuples and loop order); the second reads the first one's result when its ranks allow.
    Items carry `parts` = {output: partitioning of that Einsum}."""
    k = 0
    while k < n:
        es1 = gen_product_einsum(rng, max_ranks=3)
        es1 = _retensor(es1, {"Z": "T"})
        es2 = gen_product_einsum(rng, max_ranks=3 if rng.random() < 0.7 else 4)
        es2 = _retensor(es2, {"A": "P", "B": "Q", "C": "R", "D": "S"})
        chained = False
        t_ranks = es1["decl"]["T"]
        if t_ranks and set(t_ranks) <= set(es2["ranks"]) and rng.random() < chain_p:
            es2["decl"] = dict([("T", list(t_ranks))] + [(t, rs) for t, rs in es2["decl"].items()])
            lhs, rhs = es2["expr"].split(" = ", 1)
            es2["expr"] = lhs + " = T" + specgen._idx(t_ranks) + " * " + rhs
            chained = True
        m1, s1, f1 = wide_partition_mapping(rng, es1, **kw)
        m2, s2, f2 = wide_partition_mapping(rng, es2, **kw)
        if m1 is None or m2 is None:
            continue
        k += 1
        decl = dict(es1["decl"])
        for t, rs in es2["decl"].items():
            decl.setdefault(t, rs)
        mp = {"rank-order": dict(m1["rank-order"]), "partitioning": {}, "loop-order": {}}
        for t, o in m2["rank-order"].items():
            mp["rank-order"].setdefault(t, o)
        mp["partitioning"].update(m1["partitioning"])
        mp["partitioning"].update(m2["partitioning"])
        mp["loop-order"].update(m1.get("loop-order") or {})
        mp["loop-order"].update(m2.get("loop-order") or {})
        syms = dict(s1 or {})
        syms.update(s2 or {})
        exprs = [es1["expr"], es2["expr"]]
        style = "identity"
        rmap = {}
        if rng.random() < rename_p:
            decl, exprs, mp, rmap, style = rename_ranks(rng, decl, exprs, mp)
        feats = {"pair": 1, "chained": int(chained), "naming": style,
                 "both_occupancy": int(bool(f1["occ_levels"] and f2["occ_levels"])),
                 "mixed_leaders": f1["mixed_leaders"] + f2["mixed_leaders"], "flatten": f1["flatten"] + f2["flatten"]}
        yield {"yaml": specgen.yaml_of(decl, exprs, mp), "syms": syms, "kind": "wide-pair", "mapping": mp, "features": feats,
               "rmap": rmap, "out": "Z", "outs": ["T", "Z"], "decl": decl, "exprs": exprs}
