"""Read the stamp structure off an emitted graphics-mode program (fail-closed): for every `canvas.addActivity(...,
spacetime=(space, time))` the enclosing loop nest (outermost first), and for every stamp component which loop's value it is,
in which style (position `<r>_pos` bound by enumerate() on that loop / coordinate), and - for a relative coordinate `a - b` -
which loop binds the subtracted coordinate.  The result is the argument of the Gallina certificate `stamp_cert_okb`
(coq/Proofs/StampCert.v), whose soundness theorem gives: distinct iterations of the nest carry distinct (space, time) stamps.
Anything not of these shapes (flattened ranks binding tuples, slip counters, computed coordinates) raises Unrecognized: such
programs are judged by execution only."""
import ast


class Unrecognized(Exception):
    pass


def _loop_vars(node):
    """(coordinate variable, position variable or None) bound by one `for`"""
    tgt, it = node.target, node.iter
    pos = None
    if isinstance(it, ast.Call) and isinstance(it.func, ast.Name) and it.func.id == "enumerate":
        if not (isinstance(tgt, ast.Tuple) and len(tgt.elts) == 2 and isinstance(tgt.elts[0], ast.Name)):
            raise Unrecognized("enumerate target")
        pos, tgt = tgt.elts[0].id, tgt.elts[1]
    if isinstance(tgt, ast.Tuple) and len(tgt.elts) == 2:
        c = tgt.elts[0]
    else:
        c = tgt
    if not isinstance(c, ast.Name):
        raise Unrecognized("loop binds a tuple coordinate (flattened rank)")
    return c.id, pos


def _component(e, loops):
    coord = {c: i for i, (c, p) in enumerate(loops)}
    posv = {p: i for i, (c, p) in enumerate(loops) if p}
    if isinstance(e, ast.Name):
        if e.id in coord:
            return (coord[e.id], False, None)
        if e.id in posv:
            return (posv[e.id], True, None)
        raise Unrecognized("stamp reads %s, not a loop variable" % e.id)
    if isinstance(e, ast.BinOp) and isinstance(e.op, ast.Sub) and isinstance(e.left, ast.Name) and isinstance(e.right, ast.Name):
        if e.left.id in coord and e.right.id in coord:
            return (coord[e.left.id], False, coord[e.right.id])
    raise Unrecognized("stamp component " + ast.dump(e)[:60])


def views(text):
    """[{n, parents, is_pos, space, time}] for every addActivity call of the program"""
    out = []

    def walk(stmts, loops):
        for s in stmts:
            if isinstance(s, ast.For):
                walk(s.body, loops + [_loop_vars(s)])
                if s.orelse:
                    raise Unrecognized("for-else")
            elif isinstance(s, (ast.If, ast.While, ast.With, ast.Try)):
                for f in ("body", "orelse", "finalbody"):
                    walk(getattr(s, f, []) or [], loops)
            elif isinstance(s, ast.Expr) and isinstance(s.value, ast.Call) and isinstance(s.value.func, ast.Attribute) \
                    and s.value.func.attr == "addActivity":
                kw = [k.value for k in s.value.keywords if k.arg == "spacetime"]
                if len(kw) != 1 or not (isinstance(kw[0], ast.Tuple) and len(kw[0].elts) == 2
                                        and all(isinstance(x, ast.Tuple) for x in kw[0].elts)):
                    raise Unrecognized("spacetime argument")
                if len(set(c for c, _ in loops)) != len(loops):
                    raise Unrecognized("a loop variable is rebound by an inner loop")
                comps = [[_component(e, loops) for e in part.elts] for part in kw[0].elts]
                n = len(loops)
                parents, is_pos = [None] * n, [None] * n
                for i, p, par in comps[0] + comps[1]:
                    if is_pos[i] is not None and (is_pos[i], parents[i]) != (p, par):
                        raise Unrecognized("one loop stamped in two ways")
                    is_pos[i], parents[i] = p, par
                out.append({"n": n, "parents": parents, "is_pos": [bool(x) for x in is_pos],
                            "space": [c[0] for c in comps[0]], "time": [c[0] for c in comps[1]]})
    walk(ast.parse(text).body, [])
    return out


def coq_term(v):
    """`stamp_cert_okb n parents space time` as Gallina text"""
    nl = lambda l: "[" + "; ".join("%d%%nat" % x for x in l) + "]"
    ps = "[" + "; ".join("None" if p is None else "(Some %d%%nat)" % p for p in v["parents"]) + "]"
    return "(stamp_cert_okb %d%%nat %s %s %s)" % (v["n"], ps, nl(v["space"]), nl(v["time"]))
