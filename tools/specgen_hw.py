"""Metrics-mode populations beyond the four fixed templates of specgen_metrics (C11, C09).

Two generators, both returning ordinary items {"yaml", "kind", "arch": True, "meta"}:

* `gen_cascade(rng)`: 1-3 Einsums over a shared pool of ranks (names beyond J,K,M,N) and a SHARED pool of input
  tensors (an input may be a factor of several Einsums, like A in Gamma), each Einsum with its own loop order, optional
  shape/occupancy partitioning (levels interleaved with other ranks in the loop order) and spacetime; wrapped in an
  architecture whose components (two intersectors of random types, a merger, a sequencer, DRAM/buffet, compute) are bound
  by SEVERAL Einsums with per-Einsum parameters (rank, leader, evict-on, style, init/final ranks).
* `wrap(rng, decl, einsums, mapping)`: the hardware wrapper alone, for any specification of the plain populations
  (shape/occupancy partitioned, cascades ...), so that everything the plain populations exercise is also exercised with
  metrics on (forced explicit output shapes, Fiber.intersection, suppressed enumerate, metrics swizzles).

Every choice comes from the `rng` handed in."""
import specgen

RANKS = ["I", "J", "K", "M", "N", "P", "H", "W"]
INPUTS = ["A", "B", "C", "D", "E", "F", "G", "L", "R", "S", "X", "Y", "AA", "AB", "AC", "AD", "AE", "AF"]
INTER_TYPES = ["two-finger", "leader-follower", "skip-ahead"]


def _idx(ranks):
    return "[" + ", ".join(r.lower() for r in ranks) + "]"


def _interleave(rng, seqs):
    """Random interleaving of the sequences keeping each sequence's order."""
    seqs = [list(s) for s in seqs if s]
    out = []
    while seqs:
        s = rng.choice(seqs)
        out.append(s.pop(0))
        if not s:
            seqs.remove(s)
    return out


def gen_einsums(rng, n=None, part_p=0.4, two_term_p=0.12):
    """-> (decl, einsums, mapping); einsums: list of dict(out, terms=[[(tensor, ranks)]], ranks, out_ranks, loop, levels)."""
    n = n or rng.choice([1, 2, 2, 2, 3])
    pool = rng.sample(RANKS, rng.randint(3, 4))
    outs = ["T", "U"][:n - 1] + ["Z"]
    decl = {}
    inputs = {}
    prev = {}
    einsums = []
    mapping = {"rank-order": {}, "partitioning": {}, "loop-order": {}, "spacetime": {}}
    names = iter(INPUTS)
    for k in range(n):
        o = outs[k]
        ranks = rng.sample(pool, rng.randint(2, min(3, len(pool))))
        use_prev = None
        if prev and rng.random() < 0.85:
            use_prev = rng.choice(sorted(prev))
            for r in prev[use_prev]:
                if r not in ranks:
                    ranks.append(r)
        nterms = 2 if rng.random() < two_term_p else 1
        terms = []
        for ti in range(nterms):
            facs = []
            if use_prev and ti == 0:
                facs.append((use_prev, list(prev[use_prev])))
            want = rng.randint(2, 3) if ti == 0 else rng.randint(1, 2)
            tries = 0
            while len(facs) < want and tries < 10:
                tries += 1
                reuse = [t for t, rs in inputs.items() if set(rs) <= set(ranks) and all(t != f[0] for f in facs)
                         and all(t != f[0] for tm in terms for f in tm)]
                if reuse and rng.random() < 0.55:
                    t = rng.choice(reuse)
                    facs.append((t, list(inputs[t])))
                else:
                    try:
                        t = next(names)
                    except StopIteration:
                        break
                    rs = rng.sample(ranks, rng.randint(1, min(3, len(ranks))))
                    inputs[t] = rs
                    decl[t] = list(rs)
                    facs.append((t, rs))
            missing = [r for r in ranks if not any(r in f[1] for f in facs)]
            if missing:
                # a fresh operand holding the missing ranks (+ possibly one shared rank, so that it is co-iterated)
                try:
                    t = next(names)
                except StopIteration:
                    ranks = [r for r in ranks if r not in missing]
                else:
                    rs = list(missing)
                    extra = [r for r in ranks if r not in missing]
                    if extra and rng.random() < 0.7:
                        rs.insert(rng.randint(0, len(rs)), rng.choice(extra))
                    inputs[t] = rs
                    decl[t] = list(rs)
                    facs.append((t, rs))
            rng.shuffle(facs)
            terms.append(facs)
        out_ranks = rng.sample(ranks, rng.randint(1 if k < n - 1 else 0, len(ranks)))
        if nterms > 1:
            # every term of a sum must cover the output ranks
            out_ranks = [r for r in out_ranks if all(any(r in f[1] for f in t) for t in terms)]
            if k < n - 1 and not out_ranks:
                terms = terms[:1]
                out_ranks = rng.sample(ranks, rng.randint(1, len(ranks)))
        decl[o] = list(out_ranks)
        prev[o] = list(out_ranks)
        # partitioning of one rank: shape levels (literal / symbolic / n-way) or occupancy with a leader
        levels = {}
        if rng.random() < part_p:
            r = rng.choice(ranks)
            kind = rng.random()
            holders = [t for t, rs in terms[0] if r in rs and t not in prev] if len(terms) == 1 else []
            if kind < 0.65 or not holders:
                depth = rng.choice([1, 1, 2])
                ds = []
                size = rng.randint(2, 5)
                for lvl in range(depth):
                    if rng.random() < 0.25:
                        ds.append("nway_shape(%d)" % rng.randint(2, 3))
                    else:
                        ds.append("uniform_shape(%d)" % size)
                    size = max(1, size // 2)
            else:
                depth = rng.choice([1, 1, 2])
                leader = rng.choice(holders)
                ds = []
                size = rng.randint(2, 4)
                for lvl in range(depth):
                    if lvl > 0 and rng.random() < 0.5:
                        leader = rng.choice(holders)          # another leader for the inner level
                    ds.append("uniform_occupancy(%s.%d)" % (leader, size))
                    size = max(1, size // 2)
            mapping["partitioning"][o] = {r: ds}
            levels[r] = specgen.levels_of(r, len(ds))
        loop = _interleave(rng, [levels.get(r, [r]) for r in rng.sample(ranks, len(ranks))])
        mapping["loop-order"][o] = loop
        k2 = rng.choice([0, 0, 1, 1, 2])
        space = rng.sample(loop, min(k2, len(loop)))
        mapping["spacetime"][o] = {"space": space, "time": [r for r in loop if r not in space]}
        einsums.append({"out": o, "terms": terms, "ranks": ranks, "out_ranks": out_ranks, "loop": loop, "levels": levels})
    for t, rs in decl.items():
        if len(rs) > 1 and rng.random() < 0.5:
            p = list(rs)
            rng.shuffle(p)
            mapping["rank-order"][t] = p
    return decl, einsums, mapping


def exprs_of(einsums):
    out = []
    for e in einsums:
        out.append(e["out"] + _idx(e["out_ranks"]) + " = " +
                   " + ".join(" * ".join(t + _idx(rs) for t, rs in term) for term in e["terms"]))
    return out


def _root(level, e):
    for r, lv in e["levels"].items():
        if level in lv:
            return r
    return level


def _loop_ranks_of(t_ranks, e):
    """The tensor's ranks as they are named inside the loop nest (partition levels), in loop order."""
    return [x for x in e["loop"] if _root(x, e) in t_ranks]


def hardware(rng, decl, einsums, mapping, buffers_p=0.5, merger_p=0.3):
    """architecture + bindings + format sections for the given Einsums."""
    t_a, t_b = rng.choice(INTER_TYPES), rng.choice(INTER_TYPES)
    n_pe = rng.choice([1, 4, 16])
    has_seq = rng.random() < 0.3
    y = "architecture:\n  Accel:\n  - name: System\n    attributes:\n      clock_frequency: %d\n" % rng.choice([1000, 1000000])
    y += "    local:\n    - name: Memory\n      class: DRAM\n      attributes:\n        bandwidth: %d\n" % rng.choice([512, 4096])
    if has_seq:
        y += "    - name: Seq\n      class: Sequencer\n      attributes:\n        num_ranks: 8\n"
    y += "    subtree:\n    - name: %s\n      local:\n" % ("PE" if n_pe == 1 else "PE[0..%d]" % (n_pe - 1))
    # numeric attributes are sometimes written as floats with many significant digits (they are printed into the dump)
    depth = rng.choice(["128", "128", "128", "327681.0", "1048577.5", "12345678.0"])
    width = rng.choice(["64", "64", "64", "32.0"])
    y += "      - name: Buf\n        class: Buffet\n        attributes:\n          width: %s\n          depth: %s\n" % (width, depth)
    y += "      - name: IsA\n        class: Intersector\n        attributes:\n          type: %s\n" % t_a
    y += "      - name: IsB\n        class: Intersector\n        attributes:\n          type: %s\n" % t_b
    y += "      - name: Mrg\n        class: Merger\n        attributes:\n          inputs: 64\n          comparator_radix: 64\n          outputs: 1\n          order: fifo\n          reduce: False\n"
    y += "      - name: Mul\n        class: compute\n        attributes:\n          type: mul\n"
    y += "      - name: Add\n        class: compute\n        attributes:\n          type: add\n"
    formats = {}      # tensor -> {format name -> [ranks]}
    meta = {"intersectors": [], "leaders": [], "mergers": 0, "buffers": 0, "sequencer": has_seq}
    b = "bindings:\n"
    for e in einsums:
        o = e["out"]
        # now and then a collection prefix with characters outside ASCII / outside the BMP (it is printed into the program)
        pre = rng.choice(["tmp", "tmp", "tmp", "tmp", "tmp", "tmp", "tmp", "tmp", "tmp/\u00e9t\u00e9", "tmp/\U00020bb7\u91ce"])
        b += "  %s:\n  - config: Accel\n    prefix: %s/%s\n" % (o, pre, o)
        single = len(e["terms"]) == 1
        # ranks (loop names) co-iterated by at least two factors of one term
        cands = []
        for x in e["loop"]:
            r = _root(x, e)
            for term in e["terms"]:
                hs = [t for t, rs in term if r in rs]
                if len(hs) >= 2:
                    cands.append((x, hs))
                    break
        rng.shuffle(cands)
        used = set()
        for comp, typ, p in (("IsA", t_a, 0.75), ("IsB", t_b, 0.35)):
            # the compiler supports an intersector only on single-term Einsums, and a two-finger / skip-ahead one only
            # between exactly two operands
            avail = [c for c in cands if c[0] not in used and (typ == "leader-follower" or len(c[1]) == 2)]
            if not single or not avail or rng.random() >= p:
                continue
            # one component may serve several ranks of one Einsum (each with its own leader)
            b += "  - component: %s\n    bindings:\n" % comp
            for x, hs in avail[:(2 if rng.random() < 0.35 else 1)]:
                used.add(x)
                b += "    - rank: %s\n" % x
                if typ == "leader-follower":
                    ld = rng.choice(hs)
                    b += "      leader: %s\n" % ld
                    meta["leaders"].append((o, x, ld))
                meta["intersectors"].append((o, comp, typ, x))
        if has_seq and rng.random() < 0.7:
            b += "  - component: Seq\n    bindings:\n"
            for x in rng.sample(e["loop"], rng.randint(1, len(e["loop"]))):
                b += "    - rank: %s\n" % x
        # merger: an unpartitioned input whose stored order is not loop-concordant
        if not e["levels"] and rng.random() < merger_p:
            ins = [(t, rs) for term in e["terms"] for t, rs in term if len(rs) >= 2]
            if ins:
                t, rs = rng.choice(ins)
                final = [x for x in e["loop"] if x in rs]
                init = list(mapping["rank-order"].get(t, decl[t]))
                if init == final:
                    init = list(reversed(final))
                b += "  - component: Mrg\n    bindings:\n    - tensor: %s\n      init-ranks: [%s]\n      final-ranks: [%s]\n" % (
                    t, ", ".join(init), ", ".join(final))
                meta["mergers"] += 1
        # merger on a PARTITIONED input: init-ranks are the tensor's ranks after partitioning (storage order, levels in
        # place), final-ranks the loop-concordant order
        if e["levels"] and rng.random() < merger_p:
            dirs = (mapping.get("partitioning") or {}).get(o, {})
            static = set(r for r in e["levels"] if all("occupancy" not in d for d in dirs.get(r, ["occupancy"])))
            # only statically (shape) partitioned ranks: the whole tensor exists in its partitioned form before the loops
            def whole(t, r):
                # ... or the LEADER of a one-level occupancy split of its outermost stored rank, when that rank's upper level
                # opens the loop nest: the leader is then split once, before the loops
                ds = dirs.get(r, [])
                stored = mapping["rank-order"].get(t, decl[t])
                return (r in static) or (len(ds) == 1 and ds[0].startswith("uniform_occupancy(%s." % t) and stored and stored[0] == r
                                         and e["loop"] and e["loop"][0] == e["levels"][r][0])
            ins = [(t, rs) for term in e["terms"] for t, rs in term
                   if len(rs) >= 2 and any(r in e["levels"] for r in rs) and all(r not in e["levels"] or whole(t, r) for r in rs)]
            if ins:
                t, rs = rng.choice(ins)
                init = []
                for r in mapping["rank-order"].get(t, decl[t]):
                    init.extend(e["levels"].get(r, [r]))
                final = [x for x in e["loop"] if x in init]
                if sorted(final) == sorted(init) and init != final:
                    b += "  - component: Mrg\n    bindings:\n    - tensor: %s\n      init-ranks: [%s]\n      final-ranks: [%s]\n" % (
                        t, ", ".join(init), ", ".join(final))
                    meta["mergers"] += 1
                    meta["partitioned_mergers"] = meta.get("partitioned_mergers", 0) + 1
        # buffers: DRAM and an (optionally evicting, lazy or eager) buffet for one or two tensors.  A format names the
        # tensor's ranks as THIS Einsum's loop nest names them (partition levels), so a tensor gets one only if every
        # Einsum using it names its ranks identically; an output otherwise gets a format over its declared ranks.
        fname = "default"

        def users(t):
            return [e2 for e2 in einsums if t == e2["out"] or any(t == f[0] for term in e2["terms"] for f in term)]

        def bindable(t):
            rs = _loop_ranks_of(decl[t], e)
            if not rs or not all(sorted(_loop_ranks_of(decl[t], e2)) == sorted(rs) for e2 in users(t)):
                return False
            return formats.get(t, {}).get(fname, rs) == rs
        if rng.random() < buffers_p:
            tens = sorted(set(t for term in e["terms"] for t, rs in term) | {o})
            tens = [t for t in tens if bindable(t)]
            chosen = rng.sample(tens, min(len(tens), rng.randint(1, 2)))
            mem, buf = "", ""
            for t in chosen:
                rs = _loop_ranks_of(decl[t], e)
                formats.setdefault(t, {})[fname] = rs
                evict_style = rng.choice([None, "lazy", "eager"])
                eager_done = False
                for x in rs:
                    for typ in ("coord", "payload"):
                        if rng.random() < 0.7:
                            mem += "    - tensor: %s\n      rank: %s\n      type: %s\n      format: %s\n" % (t, x, typ, fname)
                            above = e["loop"][:e["loop"].index(x)]
                            if evict_style == "eager":
                                # an eager binding loads the whole subtree below its rank: one per tensor, evicted on a loop rank
                                if eager_done or not above or typ != "coord":
                                    continue
                                eager_done = True
                                buf += "    - tensor: %s\n      rank: %s\n      type: coord\n      format: %s\n" % (t, x, fname)
                                buf += "      evict-on: %s\n      style: eager\n" % rng.choice(above)
                            elif rng.random() < 0.7:
                                buf += "    - tensor: %s\n      rank: %s\n      type: %s\n      format: %s\n" % (t, x, typ, fname)
                                buf += "      evict-on: %s\n" % (rng.choice(above + ["root"]) if above else "root")
                                if evict_style:
                                    buf += "      style: %s\n" % evict_style
            if mem:
                b += "  - component: Memory\n    bindings:\n" + mem
                meta["buffers"] += 1
            if buf:
                b += "  - component: Buf\n    bindings:\n" + buf
        if o not in formats and e["out_ranks"] and rng.random() < 0.6:
            # a format of the output over its declared ranks: in the order the finished tensor is stored in or (unpartitioned
            # output) in loop order - the two variants of the tensor the program builds; rarely in another order
            stored = list(mapping["rank-order"].get(o, decl[o]))
            conc = [x for x in e["loop"] if x in e["out_ranks"]]
            x = rng.random()
            if x < 0.08:
                roots = list(reversed(stored))
            elif x < 0.5 and not any(r in e["levels"] for r in e["out_ranks"]):
                roots = conc
            else:
                roots = stored
            formats[o] = {fname: roots}
        if rng.random() < 0.08:
            # one functional unit bound to two operations of the Einsum (the unchanged compiler rejects this with an
            # assertion; a compiler that accepts it must still print what it builds)
            b += "  - component: Mul\n    bindings:\n    - op: mul\n    - op: add\n"
        else:
            b += "  - component: Mul\n    bindings:\n    - op: mul\n"
            if rng.random() < 0.7:
                b += "  - component: Add\n    bindings:\n    - op: add\n"
    f = "format:\n" if formats else "format: {}\n"
    for t, fs in formats.items():
        f += "  %s:\n" % t
        for fname, rs in fs.items():
            f += "    %s:\n      rank-order: [%s]\n" % (fname, ", ".join(rs))
            for x in rs:
                comp = rng.random() < 0.6
                f += "      %s:\n        format: %s\n" % (x, "C" if comp else "U")
                if comp:
                    f += "        cbits: %d\n" % rng.choice([16, 32])
                f += "        pbits: %d\n" % rng.choice([32, 64])
    return y + b + f, meta


def gen_cascade(rng, n=None):
    decl, einsums, mapping = gen_einsums(rng, n)
    hw, meta = hardware(rng, decl, einsums, mapping)
    y = specgen.yaml_of(decl, exprs_of(einsums), mapping) + hw
    meta["einsums"] = len(einsums)
    meta["partitioned"] = sum(1 for e in einsums if e["levels"])
    return {"yaml": y, "kind": "hw-cascade", "arch": True, "meta": meta, "syms": {}}


# ----------------------------------------------------------------------------
# wrapping the plain populations
# ----------------------------------------------------------------------------

def wrap_single(rng, it):
    """Hardware wrapper for a single-Einsum item of popgen.shape/occupancy/plain (needs it['es'], it['mapping'] with an
    explicit loop order): the output keeps its partitioning and (interleaved) loop order; an intersector of a random type is
    bound on a co-iterated loop rank."""
    es, mp = it["es"], it["mapping"]
    out = es["out"]
    loop = (mp.get("loop-order") or {}).get(out)
    if loop is None:
        if mp.get("partitioning"):
            return None
        loop = specgen.default_loop(es)
        rng.shuffle(loop)
    mp = {k: (dict(v) if isinstance(v, dict) else v) for k, v in mp.items()}
    mp.setdefault("loop-order", {})
    mp["loop-order"] = dict(mp["loop-order"])
    mp["loop-order"][out] = list(loop)
    k = rng.choice([0, 0, 1, 2])
    space = rng.sample(loop, min(k, len(loop)))
    mp["spacetime"] = {out: {"space": space, "time": [r for r in loop if r not in space]}}
    typ = rng.choice(INTER_TYPES + [None])
    y = specgen.yaml_of(es["decl"], [es["expr"]], mp)
    y += "architecture:\n  Accel:\n  - name: System\n    attributes:\n      clock_frequency: 1000\n    local:\n"
    y += "    - name: Mul\n      class: compute\n      attributes:\n        type: mul\n"
    if typ:
        y += "    - name: Is\n      class: Intersector\n      attributes:\n        type: %s\n" % typ
    y += "bindings:\n  %s:\n  - config: Accel\n    prefix: tmp/%s\n  - component: Mul\n    bindings:\n    - op: mul\n" % (out, out)
    parts = (mp.get("partitioning") or {}).get(out, {})
    bound = None
    if typ and "take" not in es["expr"] and " + " not in es["expr"].split("=", 1)[1]:
        # a loop rank whose root is held by >= 2 inputs (flattened ranks are left alone)
        cands = []
        for x in loop:
            root = x.rstrip("0123456789") if x.rstrip("0123456789") in parts else x
            hs = [t for t, rs in es["decl"].items() if t != out and root in rs]
            if len(hs) >= 2 and not any(root in k_ and k_.startswith("(") for k_ in parts):
                cands.append((x, hs))
        if cands:
            x, hs = rng.choice(cands)
            y += "  - component: Is\n    bindings:\n    - rank: %s\n" % x
            if typ == "leader-follower":
                y += "      leader: %s\n" % rng.choice(hs)
            bound = (typ, x)
    outr = es["decl"][out]
    y += "format:\n  %s:\n    default:\n      rank-order: [%s]\n" % (out, ", ".join(outr))
    for r in outr:
        y += "      %s:\n        format: C\n" % r
    if not any(k_.startswith("(") for k_ in parts):
        # formats of (partitioned) input tensors, written in the order the loop nest iterates their levels
        for t, rs in es["decl"].items():
            if t == out or not rs or rng.random() < 0.4:
                continue
            order = [x for x in loop if (x.rstrip("0123456789") if x.rstrip("0123456789") in parts else x) in rs]
            if not order:
                continue
            y += "  %s:\n    default:\n      rank-order: [%s]\n" % (t, ", ".join(order))
            for r in order:
                y += "      %s:\n        format: %s\n        pbits: 32\n" % (r, rng.choice(["C", "U"]))
    it2 = dict(it)
    it2.update({"yaml": y, "kind": it["kind"] + "+hw", "arch": True, "mapping": mp,
                "meta": {"intersector": bound, "loop": loop}})
    return it2
