"""Static side condition of C03 read off an emitted program: the leader / follower protocol of occupancy partitioning.

For a rank (or flattened rank) R with directives ds = [d_0 .. d_{n-1}] (outermost first; level of d_i is j = n - i) every
dynamic directive d_i = uniform_occupancy(L.s) must appear in the text as

    leader L      :  tmp' = tmp.splitEqual(s)                  turning rank  S  into  (R<j>, V)
    every other T :  tmp' = tmp.splitNonUniform(f)             turning rank  S  into  (R<j>, V)
                     where f was bound by  f = X.getRoot()  and X is a tensor of L whose top rank is R<j>
                     (i.e. the follower is cut at the boundaries the LEADER'S split at THIS level produced)

with S = R if i = 0 else R<j>I and V = R<j-1>I if i < n-1 else R0.  If this holds, all operands are cut at the same
coordinates, so for ALL inputs no pair of elements that must meet is separated (Proofs/RtLaws.v leader_follower_meet).
When it fails there usually are inputs (operands of different occupancy) with a wrong result, but random small inputs
may miss them - the caller then searches for a failing input.

Everything is read from the emitted text by data flow (assignments, setRankIds / fromFiber / swizzleRanks rank lists),
never from variable-naming conventions, and from the SPECIFICATION's directive lists - not from the compiler's IR."""
import ast
import re


def _flat_statements(body, out):
    for st in body:
        out.append(st)
        for fld in ("body", "orelse"):
            sub = getattr(st, fld, None)
            if isinstance(sub, list) and sub and isinstance(sub[0], ast.stmt):
                _flat_statements(sub, out)
    return out


def _rank_ids_kw(call):
    for kw in call.keywords:
        if kw.arg == "rank_ids" and isinstance(kw.value, ast.List):
            ids = []
            for e in kw.value.elts:
                if not (isinstance(e, ast.Constant) and isinstance(e.value, str)):
                    return None
                ids.append(e.value)
            return ids
    return None


def _kw(call, name):
    for kw in call.keywords:
        if kw.arg == name:
            return kw.value
    return None


def _tensor_of_var(v, tensors):
    m = re.match(r'^([A-Za-z][A-Za-z0-9]*)_', v)
    if m and m.group(1) in tensors:
        return m.group(1)
    return None


def dynamic_table(part):
    """partitioning dict of one Einsum {key: [directive strings]} ->
       {upper rank id R<j>: dict(root, i, n, leader, size, src, low)} for every uniform_occupancy directive"""
    tab = {}
    for key, ds in part.items():
        if key.startswith("("):
            continue
        n = len(ds)
        for i, d in enumerate(ds):
            m = re.match(r'^uniform_occupancy\((\w+)\.(\w+)\)$', d.replace(" ", ""))
            if not m:
                continue
            j = n - i
            tab["%s%d" % (key, j)] = {
                "root": key, "i": i, "n": n, "leader": m.group(1), "size": m.group(2),
                "src": key if i == 0 else "%s%dI" % (key, j),
                "low": "%s%dI" % (key, j - 1) if i < n - 1 else "%s0" % key}
    return tab


def occupancy_splits(text, input_ids, tensors):
    """-> list of dict(tensor, kind, arg (ast), old_ids, new_ids, getroot_of) for every splitEqual / splitNonUniform
    in the text.  input_ids: {variable name: rank ids} of the tensors given to the program."""
    tree = ast.parse(text)
    sts = _flat_statements(tree.body, [])
    ids = dict(input_ids)        # variable -> rank ids (last known, textual order)
    alias = {}                   # tmp variable -> (tensor, ids) it currently holds
    pending = {}                 # tmp variable -> split record waiting for its setRankIds
    getroot = {}                 # fiber variable -> (tensor var, ids of that var when taken)
    recs = []
    for st in sts:
        # loop targets bind fiber variables: forget what we knew about them
        if isinstance(st, ast.For):
            for n in ast.walk(st.target):
                if isinstance(n, ast.Name):
                    getroot.pop(n.id, None)
            continue
        if isinstance(st, ast.Expr) and isinstance(st.value, ast.Call) and isinstance(st.value.func, ast.Attribute) \
                and st.value.func.attr == "setRankIds" and isinstance(st.value.func.value, ast.Name):
            v = st.value.func.value.id
            new = _rank_ids_kw(st.value)
            if new is not None:
                if v in pending:
                    pending[v]["new_ids"] = new
                    del pending[v]
                ids[v] = new
            continue
        if not (isinstance(st, ast.Assign) and len(st.targets) == 1 and isinstance(st.targets[0], ast.Name)):
            continue
        tgt = st.targets[0].id
        val = st.value
        if isinstance(val, ast.Name):
            if val.id in ids:
                ids[tgt] = ids[val.id]
            if val.id in pending:
                pending[tgt] = pending[val.id]      # T_NEW = tmp : the setRankIds may be applied to either name
            if val.id in alias:
                alias[tgt] = alias[val.id]
            t = _tensor_of_var(val.id, tensors)
            if t:
                alias[tgt] = t
            getroot.pop(tgt, None)
            continue
        if isinstance(val, ast.Call) and isinstance(val.func, ast.Attribute):
            f = val.func
            if f.attr in ("splitEqual", "splitNonUniform") and isinstance(f.value, ast.Name):
                src = f.value.id
                rec = {"tensor": alias.get(src) or _tensor_of_var(src, tensors), "kind": f.attr,
                       "arg": val.args[0] if val.args else None, "old_ids": ids.get(src), "new_ids": None, "line": st.lineno,
                       "getroot_of": None}
                a = rec["arg"]
                if isinstance(a, ast.Name) and a.id in getroot:
                    rec["getroot_of"] = getroot[a.id]
                recs.append(rec)
                pending[tgt] = rec
                if src in alias:
                    alias[tgt] = alias[src]
                continue
            if f.attr == "getRoot" and isinstance(f.value, ast.Name):
                getroot[tgt] = (f.value.id, ids.get(f.value.id))
                continue
            if f.attr in ("swizzleRanks", "fromFiber") or (isinstance(f.value, ast.Name) and f.value.id == "Tensor"):
                new = _rank_ids_kw(val)
                if new is not None:
                    ids[tgt] = new
                if f.attr == "swizzleRanks" and isinstance(f.value, ast.Name) and f.value.id in alias:
                    alias[tgt] = alias[f.value.id]
                continue
            if isinstance(f.value, ast.Name) and f.value.id in alias:
                alias[tgt] = alias[f.value.id]       # other tensor -> tensor methods (splitUniform, flattenRanks, ...)
            ids.pop(tgt, None)
            getroot.pop(tgt, None)
            continue
        if isinstance(val, ast.Call) and isinstance(val.func, ast.Name) and val.func.id == "Tensor":
            new = _rank_ids_kw(val)
            if new is not None:
                ids[tgt] = new
            continue
        getroot.pop(tgt, None)
    return recs


def leader_follower_ok(text, part, input_ids, tensors, out):
    """-> list of human-readable defects (empty = the side condition holds).

    Per level R<j>:  (a) exactly one tensor is cut by splitEqual and it is the leader the directive of THIS level names;
    (b) every other tensor is cut by splitNonUniform against the root fiber of a tensor of that leader whose top rank is
    R<j> (the boundaries the leader's split at this level produced); (c) each split turns the rank the directive list says
    into the two ranks it says.  The partition SIZE is not checked: it does not influence the result."""
    tab = dynamic_table(part)
    if not tab:
        return []
    bad = []
    equal_by = {}        # R<j> -> set of tensors cut by splitEqual
    for rec in occupancy_splits(text, input_ids, tensors):
        where = "line %d (%s on a tensor of %s)" % (rec["line"], rec["kind"], rec["tensor"])
        old, new = rec["old_ids"], rec["new_ids"]
        if old is None or new is None:
            bad.append("%s: rank ids before/after the split cannot be read off the text" % where)
            continue
        gone = [r for r in old if r not in new]
        born = [r for r in new if r not in old]
        if len(gone) != 1 or len(born) != 2:
            bad.append("%s: turns ranks %s into %s, not one rank into two" % (where, old, new))
            continue
        up, low = born
        if up not in tab:
            bad.append("%s: creates rank %s which no uniform_occupancy directive defines" % (where, up))
            continue
        d = tab[up]
        if gone[0] != d["src"] or low != d["low"] or new.index(low) != new.index(up) + 1:
            bad.append("%s: splits %s into (%s, %s); the directive %d of %s splits %s into (%s, %s)"
                       % (where, gone[0], up, low, d["i"], d["root"], d["src"], up, d["low"]))
            continue
        if rec["tensor"] == out:
            bad.append("%s: the output is split dynamically" % where)
            continue
        a = rec["arg"]
        if rec["kind"] == "splitEqual":
            equal_by.setdefault(up, set()).add(rec["tensor"])
            if rec["tensor"] != d["leader"]:
                bad.append("%s: %s is not the leader of %s (%s is) but is cut by splitEqual" % (where, rec["tensor"], up, d["leader"]))
        else:
            if rec["tensor"] == d["leader"]:
                bad.append("%s: the leader %s of %s is cut as a follower" % (where, d["leader"], up))
            g = rec["getroot_of"]
            if g is None:
                bad.append("%s: follower split of %s against `%s`, which is not the root fiber of a tensor" % (where, up, ast.unparse(a) if a else None))
                continue
            gvar, gids = g
            gt = _tensor_of_var(gvar, tensors)
            if gt != d["leader"]:
                bad.append("%s: follower split of %s against a fiber of %s, the leader of this level is %s" % (where, up, gt, d["leader"]))
            elif not gids or gids[0] != up:
                bad.append("%s: follower split of %s against the %s fiber of the leader, which is not the leader's split at this level (%s)"
                           % (where, up, (gids or ["?"])[0], up))
    for up, ts in sorted(equal_by.items()):
        if len(ts) > 1:
            bad.append("level %s: several tensors are cut by splitEqual (%s) - their boundaries differ" % (up, ", ".join(sorted(ts))))
    return bad
