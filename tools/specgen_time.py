"""Generated cascades with multi-configuration architectures for C14 (execution-time roll-up).

A specification is a plain dict S (see gen()); `to_yaml(S)` renders what the real compiler consumes;
`features(S)` recomputes - from S alone, never from the compiler - what the property speaks about:
per Einsum the configuration, the timed components and the keys of the runtime counts that make up each
component's operation / bit count; the raw architecture trees (level names as written).
"""
import itertools

EINSUM_NAMES = ["T", "U", "V", "W"]
FUNCTIONAL = ("compute", "intersector", "sequencer")      # teaal.ir.component.FunctionalComponent subclasses
MEMORY = ("dram", "cache", "buffet")


# ---------------------------------------------------------------------------------------------
# generation
# ---------------------------------------------------------------------------------------------

def _inst_name(base, n):
    return base if n == 1 else "%s[0..%d]" % (base, n - 1)


def gen_config(rng, idx, shared_names, rich, kinds=None):
    """One configuration tree. Component names are shared across configurations (as in
    tests/integration/outerspace.yaml) or made unique with the configuration index."""
    sfx = "" if shared_names else str(idx)
    inst = lambda: rng.choice([1, 2, 3, 4, 8, 16, 32, 128, 257, 300])
    freq = rng.choice([1, 7, 1000, 1000000, 1500000000])
    root = {"name": "System", "freq": freq, "local": [], "subtree": []}
    dram_attrs = {"bandwidth": rng.choice([512, 4096, 1099511627776, 3])}
    if rng.random() < 0.3:
        dram_attrs["datawidth"] = rng.choice([8, 16, 64])      # a distracting attribute: bandwidth is bits per second as written
    root["local"].append({"name": "Mem" + sfx, "class": "DRAM", "attrs": dram_attrs})
    cur = root
    has_l2 = rng.random() < 0.5
    if has_l2 or rng.random() < 0.3:
        mid = {"name": _inst_name(rng.choice(["Chip", "Cluster"]), rng.choice([1, 1, inst()])), "freq": None, "local": [], "subtree": []}
        if has_l2:
            cls = rng.choice(["Cache", "Buffet"])
            if kinds is not None:
                cls = kinds["l2cls"]
            mid["local"].append({"name": "L2" + sfx, "class": cls,
                                 "attrs": dict({"width": 64, "depth": 1024, "bandwidth": rng.choice([2048, 64, 5])},
                                               **({"datawidth": rng.choice([8, 32])} if rng.random() < 0.2 else {}))})
        cur["subtree"].append(mid)
        cur = mid
    pe = {"name": _inst_name("PE", inst()), "freq": None, "local": [], "subtree": []}
    # a distracting clock_frequency below the root must be ignored (only the top level counts)
    if rng.random() < 0.15:
        pe["freq"] = rng.choice([3, 999])
    cur["subtree"].append(pe)
    pe["local"].append({"name": "Buf" + sfx, "class": "Buffet", "attrs": {"width": 64, "depth": 128}})
    if rich and rng.random() < 0.4:
        pe["local"].append({"name": "BufB" + sfx, "class": "Buffet", "attrs": {"width": 32, "depth": 64}})
    fu_level = pe
    if rng.random() < 0.4:
        lane = {"name": _inst_name("Lane", inst()), "freq": None, "local": [], "subtree": []}
        pe["subtree"].append(lane)
        fu_level = lane
    itype = rng.choice(["two-finger", "leader-follower", "skip-ahead", None])
    if kinds is not None and itype is not None:
        itype = kinds["itype"]
    if itype:
        # intersectors sometimes sit one level up
        lvl = rng.choice([pe, fu_level])
        lvl["local"].append({"name": "Isect" + sfx, "class": "Intersector", "attrs": {"type": itype}})
    fu_level["local"].append({"name": "Mul" + sfx, "class": "compute", "attrs": {"type": "mul"}})
    rng.choice([pe, fu_level, fu_level])["local"].append({"name": "Add" + sfx, "class": "compute", "attrs": {"type": "add"}})
    if rng.random() < 0.5:
        rng.choice([root, pe, fu_level])["local"].append(
            {"name": "Seq" + sfx, "class": "Sequencer", "attrs": {"num_ranks": 3}})
    if rich and rng.random() < 0.4:
        fu_level["local"].append({"name": "Mrg" + sfx, "class": "Merger",
                                  "attrs": {"inputs": 64, "comparator_radix": 64, "outputs": 1, "order": "fifo", "reduce": False}})
    return root


def _walk(tree, depth=0):
    yield tree, depth
    for s in tree["subtree"]:
        yield from _walk(s, depth + 1)


def config_components(tree):
    """[(decl, depth)] in Hardware build order (locals of a level, then its subtrees)."""
    out = []
    for lv, d in _walk(tree):
        for c in lv["local"]:
            out.append((c, d))
    return out


def gen(rng, rich=True, n_einsums=None, special_names=True):
    n = n_einsums or rng.choice([1, 2, 2, 3, 3, 4])
    names = EINSUM_NAMES[:n]
    if special_names and rng.random() < 0.04:
        names[-1] = rng.choice(["time", "blocks"])          # reserved keys of the metrics dictionary
    ncfg = rng.choice([1, 1, 2, 2, 3])
    shared = rng.random() < 0.5
    cfg_names = ["P%d" % (i + 1) for i in range(ncfg)]
    # a shared name must denote one class everywhere (a component is built with the bindings of all Einsums)
    kinds = {"itype": rng.choice(["two-finger", "leader-follower", "skip-ahead"]), "l2cls": rng.choice(["Cache", "Buffet"])} if shared else None
    arch = [(c, gen_config(rng, i + 1, shared, rich, kinds)) for i, c in enumerate(cfg_names)]
    if shared and ncfg > 1 and rng.random() < 0.4:
        # identical trees under different configuration names: sharing is then harmless
        arch = [(c, arch[0][1]) for c in cfg_names]
    decl = {"A": ["K", "M"], "B": ["K", "N"], "C": ["M", "N"]}
    einsums = []
    formats = {}
    prev = None
    # style of the whole cascade: blocks with ONE timed component summed over several Einsums need Einsums that
    # bind (almost) no functional unit
    style = rng.choice(["normal"] * 7 + ["memonly", "memonly", "fewfus"])
    for i, nm in enumerate(names):
        decl[nm] = ["M", "N"]
        fuse = bool(einsums) and rng.random() < (0.5 if style == "normal" else 0.8) and len(einsums[-1]["loop"]) == 3
        if prev is not None and not fuse and rng.random() < 0.35:
            expr = "%s[m, n] = %s[m, n] * C[m, n]" % (nm, prev)
            ins = {prev: ["M", "N"], "C": ["M", "N"]}
            ranks = ["M", "N"]
        else:
            expr = "%s[m, n] = A[k, m] * B[k, n]" % nm
            ins = {"A": ["K", "M"], "B": ["K", "N"]}
            ranks = ["M", "K", "N"]
        loop = list(ranks)
        rng.shuffle(loop)
        if einsums and (fuse or rng.random() < 0.3) and sorted(einsums[-1]["loop"]) == sorted(loop):
            loop = list(einsums[-1]["loop"])                  # favour fusable runs
        k = rng.choice([0, 0, 1, 1, 2])
        space = loop[len(loop) - k:] if rng.random() < 0.7 else rng.sample(loop, min(k, len(loop)))
        if einsums and (fuse or rng.random() < 0.3) and einsums[-1]["loop"] == loop:
            space = list(einsums[-1]["space"])
        cfg = rng.choice(cfg_names)
        if einsums and (fuse or rng.random() < 0.4):
            cfg = einsums[-1]["config"]
        # functional components already used by the run of fusable Einsums this one continues
        avoid = set(einsums[-1]["used_fus"]) if fuse else set()
        e = {"name": nm, "expr": expr, "inputs": ins, "loop": loop, "space": space, "config": cfg,
             "prefix": "tmp/" + nm, "tensors": dict(ins, **{nm: ["M", "N"]})}
        # formats: one per tensor and loop-concordant rank order
        e["fmt"] = {}
        for t, rs in e["tensors"].items():
            order = [r for r in loop if r in rs]
            fname = "f" + "".join(order)
            e["fmt"][t] = (fname, order)
            spec = formats.setdefault(t, {})
            if fname not in spec:
                f = {"rank-order": order}
                for r in order:
                    d = {"format": rng.choice(["C", "C", "U"])}
                    if d["format"] == "C" and rng.random() < 0.85:
                        d["cbits"] = rng.choice([16, 32])
                    if rng.random() < 0.9:
                        d["pbits"] = rng.choice([32, 64, 0]) if rng.random() < 0.1 else rng.choice([32, 64])
                    f[r] = d
                spec[fname] = f
        e["bindings"] = gen_bindings(rng, e, dict(arch)[cfg], formats, avoid, sparse=rng.random() < 0.2, style=style)
        decl_cls = {c["name"]: c["class"].lower() for c, _ in config_components(dict(arch)[cfg])}
        e["used_fus"] = sorted(avoid | set(n for n, bs in e["bindings"] if bs and decl_cls.get(n) in FUNCTIONAL))
        einsums.append(e)
        prev = nm
    return {"decl": decl, "einsums": einsums, "formats": formats, "arch": arch, "shared_names": shared}


def gen_bindings(rng, e, tree, formats, avoid=(), sparse=False, style="normal"):
    comps = config_components(tree)
    by_class = {}
    for c, d in comps:
        by_class.setdefault(c["class"].lower(), []).append(c)
    out = []          # [(component name, [binding dict])] in YAML order
    loop = e["loop"]
    keys = []
    for t, (fname, order) in e["fmt"].items():
        for r in order:
            for typ in ("coord", "payload"):
                keys.append((t, r, typ, fname))
    mem = by_class["dram"][0]
    l2 = (by_class.get("cache", []) + [c for c in by_class.get("buffet", []) if c["name"].startswith("L2")] + [None])[0]
    bufs = [c for c in by_class.get("buffet", []) if not c["name"].startswith("L2")]

    def mk(key, buffet):
        t, r, typ, fname = key
        b = {"tensor": t, "rank": r, "type": typ, "format": fname}
        if buffet:
            above = loop[:loop.index(r)]
            b["evict-on"] = rng.choice(above + ["root"]) if above else "root"
        return b
    pmem, pl2, pbuf = rng.choice([(0.8, 0.5, 0.6), (0.9, 0.8, 0.8), (0.5, 0.3, 0.5), (0.0, 0.0, 0.0)])
    if style == "memonly":
        pmem, pl2, pbuf = rng.choice([(0.9, 0.0, 0.9), (0.9, 0.0, 0.9), (0.0, 0.0, 0.0)])
    in_mem = [k for k in keys if rng.random() < pmem]
    in_l2 = [k for k in keys if l2 is not None and rng.random() < pl2]
    tensors = sorted(e["tensors"])
    # the second buffet takes one tensor of its own (two memories of one level must not hold the same data)
    tb = rng.choice(tensors) if len(bufs) > 1 else None
    in_buf = {}
    for bf in bufs:
        in_buf[bf["name"]] = [k for k in keys if rng.random() < pbuf and ((k[0] == tb) == (bf is not bufs[0]) or len(bufs) == 1)]
    order = ["mem", "l2"] + [b["name"] for b in bufs]
    if rng.random() < 0.3:
        rng.shuffle(order)                      # the order of the components in the bindings is free
    entries = {}
    if in_mem or rng.random() < 0.5:
        entries["mem"] = (mem["name"], [mk(k, False) for k in in_mem])
    if l2 is not None and (in_l2 or rng.random() < 0.3):
        entries["l2"] = (l2["name"], [mk(k, l2["class"].lower() == "buffet") for k in in_l2])
    for bf in bufs:
        if in_buf[bf["name"]] or rng.random() < 0.3:
            entries[bf["name"]] = (bf["name"], [mk(k, True) for k in in_buf[bf["name"]]])
    fus = []
    pf = 0.3 if sparse else 1.0
    if style == "memonly":
        pf = 0.0
    elif style == "fewfus":
        pf = 0.2
    for c in by_class.get("intersector", []):
        shared = [r for r in loop if sum(1 for t, rs in e["inputs"].items() if r in rs) >= 2]
        if shared and c["name"] not in avoid and rng.random() < 0.7 * pf:
            p = rng.random()
            rks = [] if p < 0.1 else ([rng.choice(shared)] if p < 0.8 or len(shared) < 2 else rng.sample(shared, 2))
            bs = []
            for r in rks:
                b = {"rank": r}
                if c["attrs"]["type"] == "leader-follower":
                    b["leader"] = rng.choice([t for t, rs in e["inputs"].items() if r in rs])
                bs.append(b)
            fus.append((c["name"], bs))
    for c in by_class.get("compute", []):
        op = c["attrs"]["type"]
        if c["name"] not in avoid and rng.random() < (0.85 if op == "mul" else 0.6) * pf:
            fus.append((c["name"], [{"op": op}]))
    for c in by_class.get("sequencer", []):
        if c["name"] not in avoid and rng.random() < 0.6 * pf:
            k = rng.randint(1, len(loop))
            fus.append((c["name"], [{"rank": r} for r in rng.sample(loop, k)]))
    for c in by_class.get("merger", []):
        if rng.random() < 0.5 * pf:
            t = rng.choice(sorted(e["inputs"]))
            rs = list(e["inputs"][t])
            init = list(rs)
            fin = list(reversed(rs))
            fus.append((c["name"], [{"tensor": t, "init-ranks": init, "final-ranks": fin}]))
    if rng.random() < 0.3:
        rng.shuffle(fus)
    seq = [entries[k] for k in order if k in entries]
    if rng.random() < 0.2:
        allb = seq + fus
        rng.shuffle(allb)
        return allb
    return seq + fus


# ---------------------------------------------------------------------------------------------
# YAML
# ---------------------------------------------------------------------------------------------

def _yv(v):
    if isinstance(v, bool):
        return "True" if v else "False"
    if isinstance(v, list):
        return "[" + ", ".join(_yv(x) for x in v) + "]"
    return str(v)


def _level_yaml(tree, ind):
    pad = " " * ind
    y = "%s- name: %s\n" % (pad, tree["name"])
    if tree["freq"] is not None:
        y += "%s  attributes:\n%s    clock_frequency: %d\n" % (pad, pad, tree["freq"])
    if tree["local"]:
        y += "%s  local:\n" % pad
        for c in tree["local"]:
            y += "%s  - name: %s\n%s    class: %s\n" % (pad, c["name"], pad, c["class"])
            if c["attrs"]:
                y += "%s    attributes:\n" % pad
                for k, v in c["attrs"].items():
                    y += "%s      %s: %s\n" % (pad, k, _yv(v))
    if tree["subtree"]:
        y += "%s  subtree:\n" % pad
        for s in tree["subtree"]:
            y += _level_yaml(s, ind + 2)
    return y


def to_yaml(S):
    y = "einsum:\n  declaration:\n"
    for t, rs in S["decl"].items():
        y += "    %s: [%s]\n" % (t, ", ".join(rs))
    y += "  expressions:\n"
    for e in S["einsums"]:
        y += "  - %s\n" % e["expr"]
    y += "mapping:\n  loop-order:\n"
    for e in S["einsums"]:
        y += "    %s: [%s]\n" % (e["name"], ", ".join(e["loop"]))
    y += "  spacetime:\n"
    for e in S["einsums"]:
        time = [r for r in e["loop"] if r not in e["space"]]
        y += "    %s:\n      space: [%s]\n      time: [%s]\n" % (e["name"], ", ".join(e["space"]), ", ".join(time))
    y += "format:\n"
    for t, spec in S["formats"].items():
        y += "  %s:\n" % t
        for fname, f in spec.items():
            y += "    %s:\n      rank-order: [%s]\n" % (fname, ", ".join(f["rank-order"]))
            for r in f["rank-order"]:
                y += "      %s:\n" % r
                for k, v in f[r].items():
                    y += "        %s: %s\n" % (k, _yv(v))
    y += "architecture:\n"
    for cfg, tree in S["arch"]:
        y += "  %s:\n" % cfg + _level_yaml(tree, 2)
    y += "bindings:\n"
    for e in S["einsums"]:
        y += "  %s:\n  - config: %s\n    prefix: %s\n" % (e["name"], e["config"], e["prefix"])
        for cname, bs in e["bindings"]:
            y += "  - component: %s\n    bindings:" % cname
            if not bs:
                y += " []\n"
                continue
            y += "\n"
            for b in bs:
                first = True
                for k, v in b.items():
                    y += "    %s %s: %s\n" % ("-" if first else " ", k, _yv(v))
                    first = False
    return y


# ---------------------------------------------------------------------------------------------
# the property's view of a specification (independent of the compiler)
# ---------------------------------------------------------------------------------------------

def features(S):
    """Per Einsum: config, prefix, loop, space, functional components with a non-empty binding (C13's
    features), and `timed`: [(component, [count key, ...])] - which runtime counts make up the operation /
    bit count of every component whose time the dump must compute.  A count key is a list of strings whose
    head is the collection prefix (see Model/Time.v, Part 6)."""
    arch = dict(S["arch"])
    out = []
    for e in S["einsums"]:
        tree = arch[e["config"]]
        comps = config_components(tree)
        # the Einsum's own configuration decides class and depth; a bound component that the configuration does
        # not declare is looked up in the other configurations (first declaring one)
        decl = {}
        depth = {}
        for cfg, tr in [(e["config"], tree)] + [(c, t) for c, t in S["arch"] if c != e["config"]]:
            for c, d in config_components(tr):
                if c["name"] not in decl:
                    decl[c["name"]] = c
                    depth[c["name"]] = d
        prefix = e["prefix"]
        timed = []
        fcomps = []
        bound = [(n, bs) for n, bs in e["bindings"]]
        # ---- traffic: buffers in binding order; source = nearest memory above holding the same data ----
        mems = [(n, bs) for n, bs in bound if decl[n]["class"].lower() in MEMORY]
        traffic = {}      # src -> [keys]
        k = 0
        for n, bs in bound:
            cls = decl[n]["class"].lower()
            if cls not in ("buffet", "cache"):
                continue
            fn = "buffetTraffic" if cls == "buffet" else "cacheTraffic"
            active = []
            for b in bs:
                f = S["formats"][b["tensor"]][b["format"]][b["rank"]]
                if b["type"] == "coord" and not f.get("cbits"):
                    continue
                if b["type"] == "payload" and not f.get("pbits"):
                    continue
                active.append(b)
            added = set()
            for b in active:
                key = (b["tensor"], b["rank"], b["type"], b["format"])
                holders = [(depth[m], m) for m, mbs in mems
                           if any((x["tensor"], x["rank"], x["type"], x["format"]) == key for x in mbs)]
                holders.sort()
                above = [m for d, m in holders if d < depth[n]]
                if not above:
                    continue
                src = above[-1]
                if (src, b["tensor"]) in added:
                    continue
                added.add((src, b["tensor"]))
                ks = traffic.setdefault(src, [])
                ks.append([prefix, fn, str(k), b["tensor"], "read"])
                if b["tensor"] == e["name"]:
                    ks.append([prefix, fn, str(k), b["tensor"], "write"])
            k += 1
        for src, ks in traffic.items():
            timed.append((src, ks))
        # ---- mergers, compute, intersectors, sequencers (the order of Collector.dump) ----
        for n, bs in bound:
            if decl[n]["class"].lower() == "merger":
                timed.append((n, [[prefix, "swaps", b["tensor"] + "_" + "".join(b["init-ranks"])] for b in bs]))
        for n, bs in bound:
            if decl[n]["class"].lower() == "compute":
                timed.append((n, [[prefix, "Compute", "payload_" + b["op"]] for b in bs]))
        for n, bs in bound:
            if decl[n]["class"].lower() == "intersector":
                timed.append((n, [[prefix, "isect", n + "_" + b["rank"]] for b in bs]))
        for n, bs in bound:
            if decl[n]["class"].lower() == "sequencer":
                timed.append((n, [[prefix, "iters", prefix + "-" + b["rank"] + "-iter.csv"] for b in bs]))
        for n, bs in bound:
            if decl[n]["class"].lower() in FUNCTIONAL and bs:
                fcomps.append(n)
        out.append({"name": e["name"], "config": e["config"], "prefix": prefix, "loop": e["loop"], "space": e["space"],
                    "fcomps": fcomps, "timed": timed})
    return out


def shared_name_conflicts(S):
    """Component names declared in two configurations with a different (instances, class, bandwidth):
    the structural shape of finding F14. Returns {name: [(config, (instances, class, bandwidth)), ...]}."""
    import re
    seen = {}
    for cfg, tree in S["arch"]:
        for lv, d in _walk(tree):
            m = re.match(r"^\s*([A-Za-z_]\w*)\s*(?:\[0\.\.\s*(\d+)\s*\])?\s*$", lv["name"])
            n = int(m.group(2)) + 1 if m and m.group(2) is not None else 1
            for c in lv["local"]:
                seen.setdefault(c["name"], []).append((cfg, (n, c["class"].lower(), c["attrs"].get("bandwidth", 0))))
    return {k: v for k, v in seen.items() if len(set(x[1] for x in v)) > 1}
