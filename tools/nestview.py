"""Reading the loop-nest structure off an emitted plain program (C01 T-val):
loop order, per-tensor rank orders as iterated, and per level which tensors each term co-iterates.
Fail-closed: anything unexpected raises NotANest and the program is then covered by execution only."""
import ast


class NotANest(Exception):
    pass


def _names_in(expr):
    """fiber-variable names in a union-of-intersections expression; returns (output_fiber_or_None, [names])"""
    out = None
    if isinstance(expr, ast.BinOp) and isinstance(expr.op, ast.LShift):
        if not isinstance(expr.left, ast.Name):
            raise NotANest("populate target")
        out = expr.left.id
        expr = expr.right
    names = []

    def walk(e):
        if isinstance(e, ast.Name):
            names.append(e.id)
        elif isinstance(e, ast.BinOp) and isinstance(e.op, (ast.BitAnd, ast.BitOr)):
            walk(e.left)
            walk(e.right)
        else:
            raise NotANest("iteration expression " + ast.dump(e)[:60])
    walk(expr)
    return out, names


def extract(spec, text, allow_partition=False):
    """-> (L, shape, views) as Python lists for a single plain sum-of-products Einsum."""
    if len(spec.structs) != 1:
        raise NotANest("cascade")
    st = spec.structs[0]
    held = set(v for t in st["terms"] for f in t["factors"] if f[0] == "T" for a in f[2] for _, v in a)
    if any(a[0][1] not in held for a in st["out_idx"]):
        raise NotANest("output-only rank")
    sels = []
    for t in st["terms"]:
        if t["take"] is not None and any(f[0] != "T" for f in t["factors"]):
            raise NotANest("take with a scalar operand")
        sels.append(t["take"])
    for a in st["out_idx"]:
        if len(a) != 1 or a[0][0] != 1:
            raise NotANest("index math")
    merges = []
    term_tensors = []
    term_scalars = []
    owner = {}
    for ti, t in enumerate(st["terms"]):
        ts = []
        term_scalars.append([f[1] for f in t["factors"] if f[0] == "V"])
        for f in t["factors"]:
            if f[0] == "T":
                for a in f[2]:
                    if len(a) != 1 or a[0][0] != 1:
                        raise NotANest("index math")
                if f[1] in owner:
                    raise NotANest("repeated tensor")
                owner[f[1]] = (ti, len(ts))
                ts.append(f[1])
        term_tensors.append(ts)
    body = ast.parse(text).body
    out_name = st["out"]
    ranks_of = {spec.var_name(t): list(spec.order(t)) for t in spec.inputs()}
    tensor_of = {spec.var_name(t): t for t in spec.inputs()}
    splits_of = {v: [] for v in ranks_of}     # var -> [(parent rank, hi, lo, step text)] ; placeholders until setRankIds
    fiber = {}         # fiber var -> tensor
    iter_ranks = {}    # tensor -> rank order as iterated
    tensor_splits = {}
    loops = None
    out_vars = {}      # variables holding the output (created / footer temporaries) -> rank list
    out_created = None
    out_final = None

    def kwargs(call):
        return {k.arg: k.value for k in call.keywords}

    def rank_list(node):
        if not isinstance(node, ast.List) or not all(isinstance(e, ast.Constant) and isinstance(e.value, str) for e in node.elts):
            raise NotANest("rank_ids")
        return [e.value for e in node.elts]

    for s in body:
        if isinstance(s, ast.For):
            if loops is not None:
                raise NotANest("two loop nests")
            loops = s
            continue
        # NAME.setRankIds(rank_ids=[...])
        if isinstance(s, ast.Expr) and isinstance(s.value, ast.Call) and isinstance(s.value.func, ast.Attribute) \
                and s.value.func.attr == "setRankIds" and isinstance(s.value.func.value, ast.Name):
            if not allow_partition:
                raise NotANest("setRankIds")
            recv = s.value.func.value.id
            new = rank_list(kwargs(s.value)["rank_ids"])
            if recv in ranks_of:
                old = ranks_of[recv]
                if len(old) != len(new):
                    raise NotANest("setRankIds changes the number of ranks")
                ren = {}
                for o, n in zip(old, new):
                    if o.endswith(("^", "_")) and o[:-1] != "":
                        ren[o] = n
                    elif o != n:
                        raise NotANest("setRankIds renames an existing rank %s -> %s" % (o, n))
                ranks_of[recv] = new
                splits_of[recv] = [(ren.get(a, a), ren.get(b, b), ren.get(c, c), d) for a, b, c, d in splits_of[recv]]
            elif recv in out_vars:
                if len(out_vars[recv]) != len(new):
                    raise NotANest("setRankIds on the output changes the number of ranks")
                out_vars[recv] = new
            else:
                raise NotANest("setRankIds on unknown variable")
            continue
        if not (isinstance(s, ast.Assign) and len(s.targets) == 1 and isinstance(s.targets[0], ast.Name)):
            raise NotANest("statement " + ast.dump(s)[:60])
        tgt, v = s.targets[0].id, s.value
        if isinstance(v, ast.Name):                                   # alias
            if v.id in ranks_of:
                ranks_of[tgt], tensor_of[tgt], splits_of[tgt] = list(ranks_of[v.id]), tensor_of[v.id], list(splits_of[v.id])
            elif v.id in out_vars:
                out_vars[tgt] = list(out_vars[v.id])
                out_final = tgt
            else:
                raise NotANest("alias of unknown variable " + v.id)
            continue
        if isinstance(v, ast.Call) and isinstance(v.func, ast.Name) and v.func.id == "Tensor":
            kw = kwargs(v)
            if loops is not None or out_created is not None or kw["name"].value != out_name:
                raise NotANest("Tensor()")
            out_created = rank_list(kw["rank_ids"])
            out_vars[tgt] = list(out_created)
            continue
        if not (isinstance(v, ast.Call) and isinstance(v.func, ast.Attribute) and isinstance(v.func.value, ast.Name)):
            raise NotANest("statement " + ast.dump(s)[:60])
        recv, meth = v.func.value.id, v.func.attr
        if meth == "swizzleRanks" and recv in ranks_of and loops is None:
            new = rank_list(kwargs(v)["rank_ids"])
            if sorted(new) != sorted(ranks_of[recv]):
                raise NotANest("swizzle is not a permutation")
            ranks_of[tgt], tensor_of[tgt], splits_of[tgt] = new, tensor_of[recv], list(splits_of[recv])
        elif meth == "getRoot" and recv in ranks_of and loops is None:
            if any(r.endswith(("^", "_")) for r in ranks_of[recv]):
                raise NotANest("unnamed partition level")
            fiber[tgt] = tensor_of[recv]
            iter_ranks[tensor_of[recv]] = list(ranks_of[recv])
            tensor_splits[tensor_of[recv]] = list(splits_of[recv])
        elif meth == "getRoot" and recv in out_vars and loops is None:
            pass
        elif meth == "splitUniform" and recv in ranks_of and loops is None and allow_partition:
            kw = kwargs(v)
            if set(kw) != {"depth"} or len(v.args) != 1 or not isinstance(kw["depth"], ast.Constant):
                raise NotANest("splitUniform arguments (halo?)")
            d = kw["depth"].value
            rs = list(ranks_of[recv])
            if not (0 <= d < len(rs)):
                raise NotANest("split depth")
            parent = rs[d]
            hi, lo = parent + "^", parent + "_"
            ranks_of[tgt] = rs[:d] + [hi, lo] + rs[d + 1:]
            tensor_of[tgt] = tensor_of[recv]
            splits_of[tgt] = splits_of[recv] + [(parent, hi, lo, ast.unparse(v.args[0]))]
        elif meth == "swizzleRanks" and recv in out_vars and loops is not None:
            new = rank_list(kwargs(v)["rank_ids"])
            if sorted(new) != sorted(out_vars[recv]):
                raise NotANest("output swizzle is not a permutation")
            out_vars[tgt] = new
        elif meth == "mergeRanks" and recv in out_vars and loops is not None and allow_partition:
            kw = kwargs(v)
            if set(kw) != {"depth", "levels", "coord_style"} or kw["coord_style"].value != "absolute":
                raise NotANest("mergeRanks arguments")
            d, k = kw["depth"].value, kw["levels"].value
            rs = out_vars[recv]
            if not (0 <= d and d + k < len(rs) and k >= 1):
                raise NotANest("merge range")
            merges.append(list(rs[d:d + k + 1]))
            out_vars[tgt] = rs[:d] + ["+".join(rs[d:d + k + 1])] + rs[d + k + 1:]
        else:
            raise NotANest("statement %s.%s" % (recv, meth))
    for ts in term_tensors:
        for t in ts:
            if t not in iter_ranks:
                raise NotANest("tensor %s has no getRoot" % t)
    L, views = [], []
    leaf_stmt = None
    node = loops
    # fibers bound by loop patterns: name -> tensor (by the naming convention <tensor lower>_<rank lower>)
    lower = {t.lower(): t for t in owner}
    while node is not None:
        tgt = node.target
        if not (isinstance(tgt, ast.Tuple) and isinstance(tgt.elts[0], ast.Name)):
            raise NotANest("loop target")
        rank = tgt.elts[0].id.upper()
        out, names = _names_in(node.iter)
        per_term = [[] for _ in term_tensors]
        for n in names:
            pre = n.rsplit("_", 1)[0]
            if n in fiber:
                t = fiber[n]
            elif pre in lower:
                t = lower[pre]
            else:
                raise NotANest("unknown fiber " + n)
            ti, pos = owner[t]
            per_term[ti].append(pos)
        L.append(rank)
        views.append((rank, [sorted(p) for p in per_term]))
        inner = [s for s in node.body if isinstance(s, ast.For)]
        if len(inner) > 1:
            raise NotANest("sibling loops")
        if inner and len(node.body) != 1:
            raise NotANest("statements beside an inner loop")
        if not inner:
            if len(node.body) != 1:
                raise NotANest("several statements in the innermost loop")
            leaf_stmt = node.body[0]
        node = inner[0] if inner else None
    if loops is None:
        # rank-0 computation: the update is a top-level statement
        ups = [s for s in body if isinstance(s, ast.AugAssign)]
        if len(ups) != 1:
            raise NotANest("no single update statement")
        leaf_stmt = ups[0]
    # scalar factors are rank-0 operands placed after the tensors of their term
    shape = [[iter_ranks[t] for t in ts] + [[] for _ in sc] for ts, sc in zip(term_tensors, term_scalars)]
    acc, lv = _leaf_view(leaf_stmt, term_tensors, term_scalars, sels)
    out_ranks = [a[0][1].upper() for a in st["out_idx"]]
    if not allow_partition:
        return L, shape, views, acc, lv, out_ranks, sels
    part = _partition_view(spec, st, term_tensors, iter_ranks, tensor_splits, out_created, out_vars, out_final, merges)
    # the update statement writes the output as created: `<<=` needs every loop rank among ITS ranks
    return L, shape, views, acc, lv, list(out_created), sels, part


def _partition_view(spec, st, term_tensors, iter_ranks, tensor_splits, out_created, out_vars, out_final, merges):
    """Static side conditions of a shape-partitioned program (hypotheses of C02_partitioned_nest_sound_partial and of the
    runtime laws split_uniform_merge1): every tensor holding a partitioned rank is split on it, with the same step text and
    the same level names; the output is created with level names, and the footer merges, for every partitioned output
    rank, exactly its levels from outermost to innermost (after a swizzle making them adjacent) back into the rank."""
    split = {}        # parent -> (hi, lo, step text)
    for t, recs in tensor_splits.items():
        for parent, hi, lo, step in recs:
            if parent in split and split[parent] != (hi, lo, step):
                raise NotANest("rank %s is split differently in two tensors: %s vs %s" % (parent, split[parent], (hi, lo, step)))
            split[parent] = (hi, lo, step)
    for t, rs in iter_ranks.items():
        for r in rs:
            if r in split:
                raise NotANest("tensor %s holds the partitioned rank %s unsplit" % (t, r))

    def chain(r):
        if r not in split:
            return [r]
        hi, lo, _ = split[r]
        return chain(hi) + chain(lo)      # either half may itself be split again (stacks; sizes need not decrease)
    decl_out = list(spec.order(st["out"]))
    expect_created = sorted(x for r in decl_out for x in chain(r))
    if out_created is None or sorted(out_created) != expect_created:
        raise NotANest("output created with ranks %s, expected the levels %s" % (out_created, expect_created))
    need = [chain(r) for r in decl_out if r in split]
    if sorted(map(tuple, merges)) != sorted(map(tuple, need)):
        raise NotANest("footer merges %s, expected %s" % (merges, need))
    if need:
        if out_final is None:
            raise NotANest("no final output variable")
        final = out_vars[out_final]
        if final != decl_out:
            raise NotANest("final output ranks %s, declared %s" % (final, decl_out))
        if out_final != spec.var_name(st["out"]):
            raise NotANest("final output variable %s" % out_final)
    return {"splits": {k: list(v) for k, v in split.items()}, "merges": merges}


def _leaf_view(stmt, term_tensors, term_scalars, sels):
    """The update statement `<out>_ref += e` / `<out>_ref <<= e`, e = sum over the terms (in order) of products of
    `<tensor>_val` names and scalar names -> (accumulates?, per term the sorted operand positions multiplied)."""
    if not (isinstance(stmt, ast.AugAssign) and isinstance(stmt.target, ast.Name) and stmt.target.id.endswith("_ref")):
        raise NotANest("update statement " + ast.dump(stmt)[:60])
    if isinstance(stmt.op, ast.Add):
        acc = True
    elif isinstance(stmt.op, ast.LShift):
        acc = False
    else:
        raise NotANest("update operator")

    def summands(e):
        if isinstance(e, ast.BinOp) and isinstance(e.op, ast.Add):
            return summands(e.left) + summands(e.right)
        return [e]

    def factors(e):
        if isinstance(e, ast.BinOp) and isinstance(e.op, ast.Mult):
            return factors(e.left) + factors(e.right)
        if isinstance(e, ast.Name):
            return [e.id]
        raise NotANest("update operand " + ast.dump(e)[:60])
    terms = summands(stmt.value)
    if len(terms) != len(term_tensors):
        raise NotANest("update expression has %d summands for %d terms" % (len(terms), len(term_tensors)))
    # the update lists the product terms first (in the order written), then the take terms
    order = [i for i, s in enumerate(sels) if s is None] + [i for i, s in enumerate(sels) if s is not None]
    lv = [None] * len(terms)
    for e, ti in zip(terms, order):
        ts, sc = term_tensors[ti], term_scalars[ti]
        # operand names of this term, by position: <tensor lower>_val for tensors, the scalar's own name for scalars
        names = [t.lower() + "_val" for t in ts] + list(sc)
        free = list(range(len(names)))
        ps = []
        for n in factors(e):
            hit = [i for i in free if names[i] == n]
            if not hit:
                raise NotANest("update multiplies %s which is not an unused operand of its term" % n)
            free.remove(hit[0])
            ps.append(hit[0])
        lv[ti] = sorted(ps)
    return acc, lv
