"""Reading the loop-nest structure off an emitted plain program (C01 T-val):
loop order, per-tensor rank orders as iterated, and per level which tensors each term co-iterates.
Fail-closed: anything unexpected raises NotANest and the program is then covered by execution only."""
import ast


class NotANest(Exception):
    pass


def _names_in(expr):
    """fiber-variable names in a union-of-intersections expression; returns (output_fiber_or_None, [names])"""
    out = None
    if isinstance(expr, ast.BinOp) and isinstance(expr.op, ast.LShift):
        if not isinstance(expr.left, ast.Name):
            raise NotANest("populate target")
        out = expr.left.id
        expr = expr.right
    names = []

    def walk(e):
        if isinstance(e, ast.Name):
            names.append(e.id)
        elif isinstance(e, ast.BinOp) and isinstance(e.op, (ast.BitAnd, ast.BitOr)):
            walk(e.left)
            walk(e.right)
        else:
            raise NotANest("iteration expression " + ast.dump(e)[:60])
    walk(expr)
    return out, names


def extract(spec, text):
    """-> (L, shape, views) as Python lists for a single plain sum-of-products Einsum."""
    if len(spec.structs) != 1:
        raise NotANest("cascade")
    st = spec.structs[0]
    held = set(v for t in st["terms"] for f in t["factors"] if f[0] == "T" for a in f[2] for _, v in a)
    if any(a[0][1] not in held for a in st["out_idx"]):
        raise NotANest("output-only rank")
    sels = []
    for t in st["terms"]:
        if t["take"] is not None and any(f[0] != "T" for f in t["factors"]):
            raise NotANest("take with a scalar operand")
        sels.append(t["take"])
    for a in st["out_idx"]:
        if len(a) != 1 or a[0][0] != 1:
            raise NotANest("index math")
    term_tensors = []
    term_scalars = []
    owner = {}
    for ti, t in enumerate(st["terms"]):
        ts = []
        term_scalars.append([f[1] for f in t["factors"] if f[0] == "V"])
        for f in t["factors"]:
            if f[0] == "T":
                for a in f[2]:
                    if len(a) != 1 or a[0][0] != 1:
                        raise NotANest("index math")
                if f[1] in owner:
                    raise NotANest("repeated tensor")
                owner[f[1]] = (ti, len(ts))
                ts.append(f[1])
        term_tensors.append(ts)
    body = ast.parse(text).body
    ranks_of = {spec.var_name(t): list(spec.order(t)) for t in spec.inputs()}
    tensor_of = {spec.var_name(t): t for t in spec.inputs()}
    fiber = {}         # fiber var -> tensor
    iter_ranks = {}    # tensor -> rank order as iterated
    loops = None
    for s in body:
        if isinstance(s, ast.Assign) and isinstance(s.targets[0], ast.Name) and isinstance(s.value, ast.Call) and \
                isinstance(s.value.func, ast.Attribute) and isinstance(s.value.func.value, ast.Name):
            recv, meth, tgt = s.value.func.value.id, s.value.func.attr, s.targets[0].id
            if meth == "swizzleRanks" and recv in ranks_of:
                kw = {k.arg: k.value for k in s.value.keywords}
                ranks_of[tgt] = [e.value for e in kw["rank_ids"].elts]
                tensor_of[tgt] = tensor_of[recv]
            elif meth == "getRoot" and recv in ranks_of:
                fiber[tgt] = tensor_of[recv]
                iter_ranks[tensor_of[recv]] = list(ranks_of[recv])
            elif meth == "getRoot":
                pass   # the output
            elif meth == "swizzleRanks" and loops is not None:
                pass   # footer swizzle of the output
            else:
                raise NotANest("header statement " + meth)
        elif isinstance(s, ast.Assign) and isinstance(s.value, ast.Call) and isinstance(s.value.func, ast.Name) and s.value.func.id == "Tensor":
            pass       # output creation
        elif isinstance(s, ast.For):
            if loops is not None:
                raise NotANest("two loop nests")
            loops = s
        elif isinstance(s, ast.Assign) and isinstance(s.value, ast.Name):
            pass       # footer aliases tmp = Z
        elif isinstance(s, ast.Assign) and isinstance(s.value, ast.Call) and isinstance(s.value.func, ast.Attribute) and s.value.func.attr == "swizzleRanks":
            pass       # footer swizzle of the output
        else:
            raise NotANest("statement " + ast.dump(s)[:60])
    for ts in term_tensors:
        for t in ts:
            if t not in iter_ranks:
                raise NotANest("tensor %s has no getRoot" % t)
    L, views = [], []
    leaf_stmt = None
    node = loops
    # fibers bound by loop patterns: name -> tensor (by the naming convention <tensor lower>_<rank lower>)
    lower = {t.lower(): t for t in owner}
    while node is not None:
        tgt = node.target
        if not (isinstance(tgt, ast.Tuple) and isinstance(tgt.elts[0], ast.Name)):
            raise NotANest("loop target")
        rank = tgt.elts[0].id.upper()
        out, names = _names_in(node.iter)
        per_term = [[] for _ in term_tensors]
        for n in names:
            pre = n.rsplit("_", 1)[0]
            if n in fiber:
                t = fiber[n]
            elif pre in lower:
                t = lower[pre]
            else:
                raise NotANest("unknown fiber " + n)
            ti, pos = owner[t]
            per_term[ti].append(pos)
        L.append(rank)
        views.append((rank, [sorted(p) for p in per_term]))
        inner = [s for s in node.body if isinstance(s, ast.For)]
        if len(inner) > 1:
            raise NotANest("sibling loops")
        if inner and len(node.body) != 1:
            raise NotANest("statements beside an inner loop")
        if not inner:
            if len(node.body) != 1:
                raise NotANest("several statements in the innermost loop")
            leaf_stmt = node.body[0]
        node = inner[0] if inner else None
    if loops is None:
        # rank-0 computation: the update is a top-level statement
        ups = [s for s in body if isinstance(s, ast.AugAssign)]
        if len(ups) != 1:
            raise NotANest("no single update statement")
        leaf_stmt = ups[0]
    # scalar factors are rank-0 operands placed after the tensors of their term
    shape = [[iter_ranks[t] for t in ts] + [[] for _ in sc] for ts, sc in zip(term_tensors, term_scalars)]
    acc, lv = _leaf_view(leaf_stmt, term_tensors, term_scalars, sels)
    out_ranks = [a[0][1].upper() for a in st["out_idx"]]
    return L, shape, views, acc, lv, out_ranks, sels


def _leaf_view(stmt, term_tensors, term_scalars, sels):
    """The update statement `<out>_ref += e` / `<out>_ref <<= e`, e = sum over the terms (in order) of products of
    `<tensor>_val` names and scalar names -> (accumulates?, per term the sorted operand positions multiplied)."""
    if not (isinstance(stmt, ast.AugAssign) and isinstance(stmt.target, ast.Name) and stmt.target.id.endswith("_ref")):
        raise NotANest("update statement " + ast.dump(stmt)[:60])
    if isinstance(stmt.op, ast.Add):
        acc = True
    elif isinstance(stmt.op, ast.LShift):
        acc = False
    else:
        raise NotANest("update operator")

    def summands(e):
        if isinstance(e, ast.BinOp) and isinstance(e.op, ast.Add):
            return summands(e.left) + summands(e.right)
        return [e]

    def factors(e):
        if isinstance(e, ast.BinOp) and isinstance(e.op, ast.Mult):
            return factors(e.left) + factors(e.right)
        if isinstance(e, ast.Name):
            return [e.id]
        raise NotANest("update operand " + ast.dump(e)[:60])
    terms = summands(stmt.value)
    if len(terms) != len(term_tensors):
        raise NotANest("update expression has %d summands for %d terms" % (len(terms), len(term_tensors)))
    # the update lists the product terms first (in the order written), then the take terms
    order = [i for i, s in enumerate(sels) if s is None] + [i for i, s in enumerate(sels) if s is not None]
    lv = [None] * len(terms)
    for e, ti in zip(terms, order):
        ts, sc = term_tensors[ti], term_scalars[ti]
        # operand names of this term, by position: <tensor lower>_val for tensors, the scalar's own name for scalars
        names = [t.lower() + "_val" for t in ts] + list(sc)
        free = list(range(len(names)))
        ps = []
        for n in factors(e):
            hit = [i for i in free if names[i] == n]
            if not hit:
                raise NotANest("update multiplies %s which is not an unused operand of its term" % n)
            free.remove(hit[0])
            ps.append(hit[0])
        lv[ti] = sorted(ps)
    return acc, lv
