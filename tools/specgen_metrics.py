"""Generated specifications with architecture, bindings and formats (metrics mode; C11, C12, C08...)."""
import itertools

TEMPLATES = [
    ({"A": ["K", "M"], "B": ["K", "N"], "Z": ["M", "N"]}, "Z[m, n] = A[k, m] * B[k, n]", ["M", "N", "K"]),
    ({"A": ["M"], "B": ["M"], "Z": ["M"]}, "Z[m] = A[m] * B[m]", ["M"]),
    ({"A": ["M", "K"], "B": ["K"], "Z": ["M"]}, "Z[m] = A[m, k] * B[k]", ["M", "K"]),
    ({"A": ["K", "M"], "B": ["K", "N"], "C": ["M", "N"], "Z": ["M", "N"]}, "Z[m, n] = A[k, m] * B[k, n] * C[m, n]", ["M", "N", "K"]),
]


def gen(rng):
    decl, expr, ranks = rng.choice(TEMPLATES)
    decl = {k: list(v) for k, v in decl.items()}
    loop = list(ranks)
    rng.shuffle(loop)
    rank_order = {}
    for t, rs in decl.items():
        p = list(rs)
        if rng.random() < 0.6:
            # loop-concordant order
            p = [r for r in loop if r in rs]
        elif rng.random() < 0.5:
            rng.shuffle(p)
        rank_order[t] = p
    y = "einsum:\n  declaration:\n"
    for t, rs in decl.items():
        y += "    %s: [%s]\n" % (t, ", ".join(rs))
    y += "  expressions:\n  - %s\n" % expr
    y += "mapping:\n  rank-order:\n"
    for t, p in rank_order.items():
        y += "    %s: [%s]\n" % (t, ", ".join(p))
    y += "  loop-order:\n    Z: [%s]\n" % ", ".join(loop)
    k = rng.randint(0, len(loop))
    space = loop[len(loop) - k:] if rng.random() < 0.7 else rng.sample(loop, k)
    time = [r for r in loop if r not in space]
    y += "  spacetime:\n    Z:\n      space: [%s]\n      time: [%s]\n" % (", ".join(space), ", ".join(time))
    # formats: one format per tensor, concordant with the loop order (rank_order of loop-concordant kind) or the tensor's rank order
    y += "format:\n"
    fmt_order = {}
    for t, rs in decl.items():
        order = [r for r in loop if r in rs] if rng.random() < 0.8 else rank_order[t]
        fmt_order[t] = order
        y += "  %s:\n    default:\n      rank-order: [%s]\n" % (t, ", ".join(order))
        for i, r in enumerate(order):
            comp = rng.random() < 0.6
            y += "      %s:\n        format: %s\n" % (r, "C" if comp else "U")
            if comp:
                y += "        cbits: %d\n" % rng.choice([16, 32])
            y += "        pbits: %d\n" % rng.choice([32, 64])
    inter_type = rng.choice(["two-finger", "leader-follower", "skip-ahead", None])
    has_cache = rng.random() < 0.4
    cache_bw = True
    n_pe = rng.choice([1, 4, 16])
    y += "architecture:\n  Accel:\n  - name: System\n    attributes:\n      clock_frequency: %d\n" % rng.choice([1000, 1000000])
    y += "    local:\n    - name: Memory\n      class: DRAM\n      attributes:\n        bandwidth: %d\n" % rng.choice([512, 4096])
    y += "    subtree:\n    - name: Chip\n      local:\n"
    if has_cache:
        y += "      - name: L2\n        class: Cache\n        attributes:\n          width: 64\n          depth: 1024\n          bandwidth: 2048\n"
    else:
        y += "      - name: Dummy\n        class: compute\n        attributes:\n          type: add\n"
    y += "      subtree:\n      - name: %s\n        local:\n" % ("PE" if n_pe == 1 else "PE[0..%d]" % (n_pe - 1))
    y += "        - name: RegFile\n          class: Buffet\n          attributes:\n            width: 64\n            depth: 128\n"
    if inter_type:
        y += "        - name: Isect\n          class: Intersector\n          attributes:\n            type: %s\n" % inter_type
    y += "        - name: Mul\n          class: compute\n          attributes:\n            type: mul\n"
    y += "        - name: Add\n          class: compute\n          attributes:\n            type: add\n"
    # bindings
    y += "bindings:\n  Z:\n  - config: Accel\n    prefix: tmp/Z\n"

    def tensor_bindings(t, evict=None, style=None):
        s = ""
        for r in fmt_order[t]:
            for typ in ("coord", "payload"):
                if rng.random() < 0.75:
                    s += "    - tensor: %s\n      rank: %s\n      type: %s\n      format: default\n" % (t, r, typ)
                    if evict is not None:
                        s += "      evict-on: %s\n" % evict(t, r)
                    if style is not None:
                        s += "      style: %s\n" % style
        return s
    y += "  - component: Memory\n    bindings:\n"
    body = ""
    for t in decl:
        body += tensor_bindings(t)
    y += body if body else "    []\n"
    if has_cache and rng.random() < 0.8:
        t = rng.choice([x for x in decl if x != "Z"])
        b = tensor_bindings(t)
        if b:
            y += "  - component: L2\n    bindings:\n" + b
    t = rng.choice(list(decl))

    def evict(t, r):
        # evict on a loop rank above the tensor's rank, or root
        above = loop[:loop.index(r)]
        return rng.choice(above + ["root"]) if above else "root"
    b = tensor_bindings(t, evict=evict)
    if b:
        y += "  - component: RegFile\n    bindings:\n" + b
    shared = [r for r in loop if sum(1 for x, rs in decl.items() if x != "Z" and r in rs) >= 2]
    if inter_type and shared and rng.random() < 0.8:
        r = rng.choice(shared)
        y += "  - component: Isect\n    bindings:\n    - rank: %s\n" % r
        if inter_type == "leader-follower":
            y += "      leader: %s\n" % rng.choice([x for x, rs in decl.items() if x != "Z" and r in rs])
    y += "  - component: Mul\n    bindings:\n    - op: mul\n"
    if rng.random() < 0.7:
        y += "  - component: Add\n    bindings:\n    - op: add\n"
    return y, {"template": expr, "loop": loop, "intersector": inter_type, "cache": has_cache}
